#!/bin/bash
# usage: try_mutation.sh <patch.diff> <command...> : applies patch to /repo, runs command, always reverts
P=$(readlink -f "$1"); shift
git -C /repo apply "$P" || { echo "patch failed"; exit 3; }
"$@"; rc=$?
git -C /repo checkout -- . ; exit $rc
