#!/bin/bash
# Confirm a seeded change independently: compiles, 62/62 tests pass with it, demo fails with it and passes without.
# usage: confirm_mutation.sh <dir containing patch.diff and demo.cpp> ; prints CONFIRMED or REJECTED:<why>; scratch worktree removed afterwards
set -u
D=$(readlink -f "$1"); WT=/tmp/wt/confirm-$$; LOG=$D/confirm.log
exec 3>&1 >"$LOG" 2>&1
fin() { git -C /repo worktree remove --force $WT >/dev/null 2>&1; rm -rf $WT; echo "$1" >&3; echo "$1"; exit 0; }
git -C /repo worktree add --detach $WT HEAD || fin "REJECTED:worktree"
cd $WT
cmake -G Ninja -B _build -DCMAKE_BUILD_TYPE=RelWithDebInfo -DCMAKE_CXX_FLAGS=-Wno-error -DLIBTINS_BUILD_TESTS=ON -DLIBTINS_BUILD_EXAMPLES=OFF >/dev/null || fin "REJECTED:cmake"
build() { cmake --build _build -j8 >/dev/null 2>&1 && cmake --build _build --target tests -j8 >/dev/null 2>&1; }
demo() { g++ -std=c++14 -O1 -g -I$WT/include $D/demo.cpp -o $WT/demo -L$WT/_build/lib -ltins -lpcap -lcrypto -lpthread -Wl,-rpath,$WT/_build/lib && timeout 120 $WT/demo; }
build || fin "REJECTED:baseline-build"
demo; rc0=$?
[ $rc0 -eq 0 ] || fin "REJECTED:demo-fails-on-original(rc=$rc0)"
git apply $D/patch.diff 2>/dev/null || git apply $D/patch.rebased.diff || fin "REJECTED:patch-does-not-apply"
git diff --stat | grep -q tests/ && fin "REJECTED:touches-tests"
build || fin "REJECTED:mutated-build"
ctest --test-dir _build -j8 --timeout 900 | tail -3 | grep -q "100% tests passed, 0 tests failed out of 62" || fin "REJECTED:tests-fail-with-patch"
demo; rc1=$?
[ $rc1 -ne 0 ] || fin "REJECTED:demo-passes-on-mutated"
fin "CONFIRMED demo_rc_original=0 demo_rc_mutated=$rc1"
