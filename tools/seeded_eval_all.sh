#!/bin/bash
# re-evaluate every seeded change with the current machinery (scratch worktrees; /repo untouched); summary on stdout
cd "$(dirname "$0")/.."
for d in seeded/*/; do n=$(basename $d); tools/seeded_eval.sh $d >/dev/null 2>&1; v=$(grep -c "^VIOLATION" $d/detect.txt); e=$(grep "^exit=" $d/detect.txt | tail -1); echo "$n violations=$v $e $(grep -o 'quick: runs=[0-9]* wall=[0-9.]*s' $d/detect.txt | tail -1)"; done
