#!/bin/bash
# Line coverage of the anchor files reached by each engine's quick workload (gcov flavour). usage: tools/coverage.sh [engine mode property runs]...
cd "$(dirname "$0")/.."; V=$PWD; B=$V/build/cov
make BUILD=cov lib -j16 >/dev/null 2>&1 || { echo build failed; exit 2; }
run() { e=$1; m=$2; p=$3; n=$4; find $B/obj -name '*.gcda' -delete; make BUILD=cov engine-$e >/dev/null 2>&1 || { echo "engine $e build failed"; return; }
  $B/$e --mode $m --property $p --seed 1 --runs $n --jobs 8 --budget-s 120 --outdir $B/replays >/dev/null 2>&1
  echo "== $p ($e/$m, $n runs)"; shift 4
  for f in "$@"; do o=$B/obj/${f%.cpp}.o; d=$(dirname $o); (cd $d && gcov -o $d $(basename $o) 2>/dev/null | grep -A1 "File '/repo/src/$f'" | tail -1 | sed "s|^|   $f: |"); done; }
run tcp flow C06 3000 tcp_ip/data_tracker.cpp tcp_ip/flow.cpp tcp_stream.cpp
run tcp ack C19 2000 tcp_ip/ack_tracker.cpp
run tcp follower C07 3000 tcp_ip/stream_follower.cpp tcp_ip/stream.cpp tcp_ip/stream_identifier.cpp tcp_ip/flow.cpp
run frag frag C08 20000 ip_reassembler.cpp
run sock sock C14 20000 packet_sender.cpp ip.cpp ipv6.cpp tcp.cpp udp.cpp icmp.cpp icmpv6.cpp dns.cpp ethernetII.cpp dot1q.cpp bootp.cpp dhcpv6.cpp
run disk disk C17 20000 sniffer.cpp packet_writer.cpp offline_packet_filter.cpp
run own own C12 10000 pdu.cpp
run wlan wlan C09 3000 crypto.cpp handshake_capturer.cpp eapol.cpp
find $B -name '*.gcov' -delete 2>/dev/null
