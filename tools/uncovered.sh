#!/bin/bash
# Functions of the given libtins source files that an engine's workload never enters (gcov flavour). usage: tools/uncovered.sh <engine> <mode> <property> <runs> <src file relative to /repo/src>...
cd "$(dirname "$0")/.."; V=$PWD; B=$V/build/cov; e=$1; m=$2; p=$3; n=$4; shift 4
make BUILD=cov lib -j8 >/dev/null 2>&1 || { echo build failed; exit 2; }
find $B/obj -name '*.gcda' -delete; make BUILD=cov engine-$e >/dev/null 2>&1 || { echo "engine build failed"; exit 2; }
$B/$e --mode $m --property $p --seed 1 --runs $n --jobs 6 --budget-s 150 --outdir $B/replays >/dev/null 2>&1
for f in "$@"; do o=$B/obj/${f%.cpp}.o; d=$(dirname $o); echo "== $f"; (cd $d && gcov -f -o $d $(basename $o) 2>/dev/null | awk '/^Function/ {fn=$2} /^Lines executed:0.00%/ {print fn}' | tr -d "'" | c++filt | grep "Tins::" | sort -u | sed 's/^/   /'); done
find $B -name '*.gcov' -delete 2>/dev/null
