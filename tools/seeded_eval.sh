#!/bin/bash
# Evaluate one seeded change with the registered quick check, in a scratch worktree (never touches /repo).
# usage: seeded_eval.sh <seeded dir> [tier]   -> writes <dir>/detect.txt ; removes worktree and scratch build afterwards
D=$(readlink -f "$1"); TIER=${2:-quick}
PID=$(python3 -c "import json;print(json.load(open('$D/meta.json'))['property'])")
WT=/tmp/wt/eval-$$; BR=/tmp/wt/evalbuild-$$
git -C /repo worktree add --detach $WT HEAD >/dev/null 2>&1 || exit 3
# patch.diff is against the pinned tree; when a later fix: commit touched the same lines, patch.rebased.diff carries the same change on top of the fix
git -C $WT apply $D/patch.diff 2>/dev/null || git -C $WT apply $D/patch.rebased.diff || { echo "patch failed" > $D/detect.txt; git -C /repo worktree remove --force $WT; exit 3; }
VERIF_REPO=$WT VERIF_BUILDROOT=$BR /verif/bin/check $PID --tier $TIER > $D/detect.txt 2>&1; rc=$?
echo "exit=$rc" >> $D/detect.txt
# keep the minimised replay next to the change
for f in $(grep -o "replay=[^ ]*" $D/detect.txt | cut -d= -f2); do [ -f "$f" ] && cp "$f" $D/replay.plan; done
git -C /repo worktree remove --force $WT; rm -rf $WT $BR
tail -3 $D/detect.txt
