#!/usr/bin/env python3
# Regenerates MANIFEST.json from the table below (kept as code so the manifest always validates).
import json, os
V = os.path.dirname(os.path.dirname(os.path.abspath(__file__)))
NA_PURE = {
 "C02": "serialize() is a pure function of one object's state: no schedule, clock, I/O, fault or second party for a simulator to vary; simulation would only be input generation under another name",
 "C03": "parse->serialize->parse is a pure function of the input bytes; nothing to schedule or fault",
 "C04": "builder calls on a thread-private object followed by serialize/parse are a sequential pure function of the call list; no environment involved",
 "C05": "derived lengths/checksums/tags are a pure function of the packet; the only oracle is an independent decoder, which is differential testing, not simulation",
 "C10": "DNS editing histories act on one private object with no I/O, time or concurrency; the result is a pure function of the edit list",
 "C11": "RadioTap setter orders act on one private buffer; pure function of the call list",
 "C13": "a finite static table (class x flag x override) with no run-time environment at all; exhaustive enumeration would decide it, which is a different technique",
 "C15": "getter/setter pairs are pure; no environment",
 "C16": "address text/order/range arithmetic is pure; no environment",
}
CLAIMED = json.load(open(os.path.join(V, "tools", "claimed.json")))
ALL = ["C%02d" % i for i in range(1, 20)]
checks = []
for pid, c in CLAIMED.items():
    checks.append({
        "property_id": pid,
        "quick_cmd": "bin/check %s --tier quick" % pid,
        "thorough_cmd": "bin/check %s --tier thorough" % pid,
        "evidence_file": "/verif/evidence/%s.json" % pid,
        "replay_cmd_template": "bin/check %s --replay {path}" % pid,
        "engine": c["engine"],
        "level_claimed": {"category": "exploration", "text": c["text"], "design_ref": c["design_ref"]},
        "level_note": c["note"],
        "technique": c["technique"],
    })
na = [{"property_id": p, "reason": NA_PURE[p]} for p in ALL if p in NA_PURE]
for p in ALL:
    if p not in NA_PURE and p not in CLAIMED:
        na.append({"property_id": p, "reason": "simulation target (see DESIGN.md section 4) but its engine is not finished in the committed tree, so it is not claimed yet"})
engines = {}
for pid, c in CLAIMED.items(): engines.setdefault(c["engine"], []).append(pid)
m = {
 "version": 1,
 "setup_cmd": "make -C /verif setup",
 "hooks": {"guard": "LIBTINS_VERIF", "enable": "every flavour in /verif/Makefile passes -DLIBTINS_VERIF; no guarded code exists in /repo (all seams are public API, symbol interposition from the harness executable, an existing FILE* constructor, replaceable operator new and compiler instrumentation of a separate build)",
           "baseline_off_cmd": "cmake -G Ninja -S /repo -B /repo/_build -DCMAKE_BUILD_TYPE=RelWithDebInfo -DCMAKE_CXX_FLAGS=-Wno-error -DLIBTINS_BUILD_TESTS=ON >/dev/null && cmake --build /repo/_build -j16 >/dev/null && cmake --build /repo/_build --target tests -j16 >/dev/null && ctest --test-dir /repo/_build -j8 --timeout 900",
           "source_commits": [], "add_only": True},
 "engines": [{"name": e, "path": "/verif/engines/%s.cpp" % e, "serves_properties": sorted(ps), "kind_free_text": "deterministic simulation engine (seeded plan generation by reference models, real libtins executes the plan, oracle after every step, ddmin minimiser, replay gate)"} for e, ps in sorted(engines.items())],
 "checks": checks,
 "not_applicable": na,
 "notes": "Technique: deterministic simulation with fault injection (DESIGN.md). Exit codes of every check: 0 held / 1 VIOLATION line / 2 machinery fault. known_findings.json lists genuine defects (open = reported as KNOWN-FINDING, fixed = repaired by a fix: commit, suppresses nothing).",
}
json.dump(m, open(os.path.join(V, "MANIFEST.json"), "w"), indent=1)
print("claimed:", sorted(CLAIMED), "not_applicable:", [x["property_id"] for x in na])
