#!/usr/bin/env python3
"""Refresh seeded/<name>/meta.json from detect.txt (output of tools/seeded_eval.sh) and confirm.log (tools/confirm_mutation.sh)."""
import json, os, re, sys, glob
V = os.path.dirname(os.path.dirname(os.path.abspath(__file__)))
for d in sorted(glob.glob(os.path.join(V, "seeded", "*"))):
    mp = os.path.join(d, "meta.json")
    if not os.path.exists(mp): continue
    m = json.load(open(mp))
    cl = os.path.join(d, "confirm.log")
    if os.path.exists(cl):
        last = [l.strip() for l in open(cl, errors="replace") if l.startswith(("CONFIRMED", "REJECTED"))]
        if last: m["confirmed"] = {"how": "tools/confirm_mutation.sh in a fresh scratch worktree: cmake+ninja build, ctest 62/62 with the patch, demo exit 0 on the original and non-zero with the patch", "result": last[-1]}
    dt = os.path.join(d, "detect.txt")
    if os.path.exists(dt):
        txt = open(dt, errors="replace").read()
        det = []
        for l in txt.splitlines():
            mm = re.match(r"violation class=(\S+) signature=(\S+) seed=(\d+) steps (\d+)->(\d+)", l)
            if mm: det.append({"class": mm.group(1), "signature": mm.group(2), "seed": int(mm.group(3)), "steps_before": int(mm.group(4)), "steps_after": int(mm.group(5))})
        m["detected"] = bool(det) and "VIOLATION property=" in txt
        m["detected_as"] = det[:4]
        s = re.findall(r"^C\d\d \w+: runs=.*$", txt, re.M)
        if s: m["check_summary"] = s[-1]
        m["ran"] = "tools/seeded_eval.sh %s  (= bin/check %s --tier quick against a scratch worktree of /repo HEAD with the patch applied)" % (d, m["property"])
    json.dump(m, open(mp, "w"), indent=1)
    print(os.path.basename(d), m.get("confirmed", {}).get("result", "?")[:9], "detected" if m.get("detected") else "NOT-DETECTED")
