#!/bin/bash
# every thorough check once on the current tree (10 min budget each); one summary line per check
cd "$(dirname "$0")/.." && make setup >/dev/null 2>&1
for p in ${PROPS:-C06 C19 C07 C08 C14 C17 C12 C01 C09 C18}; do out=$(bin/check $p --tier thorough --no-evidence 2>&1); rc=$?; echo "rc=$rc $(echo "$out" | tail -1)"; [ $rc -ne 0 ] && echo "$out" | grep -E "VIOLATION|violation|MACHINERY" | head -6; done
