#!/bin/bash
# Import the deliverables of a mutation sub-agent (/tmp/wt/r<round>-<pid>/out/mN), remove its worktree, confirm each change
# independently (tools/confirm_mutation.sh) and evaluate it with the registered quick check (tools/seeded_eval.sh).
# usage: tools/import_seeded.sh <round> <pid> ; invocations queue on a lock; one summary line per change on stdout
R=$1; P=$2; cd "$(dirname "$0")/.."; W=/tmp/wt/r$R-$P
for o in $W/out/m*; do [ -f $o/patch.diff ] || continue; m=$(basename $o); d=seeded/$P-r$R$m; mkdir -p $d; cp $o/patch.diff $o/demo.cpp $o/NOTES.md $d/ 2>/dev/null
  echo "{\"property\":\"$P\",\"origin\":\"independent sub-agent (round $R) given only the property text (statement, quantifier, code anchors) and a scratch worktree\",\"round\":$R}" > $d/meta.json; done
git -C /repo worktree remove --force $W >/dev/null 2>&1; rm -rf $W
exec 9>/tmp/import_seeded.lock.$(( 10#${P#C} % 3 )); flock 9   # three lanes
for d in seeded/$P-r${R}m*; do c=$(tools/confirm_mutation.sh $d | tail -1); tools/seeded_eval.sh $d >/dev/null 2>&1
  echo "$(basename $d) $c | violations=$(grep -c '^VIOLATION' $d/detect.txt) $(grep '^exit=' $d/detect.txt | tail -1) | $(grep -m1 '^violation' $d/detect.txt | sed 's/ detail=.*//' | cut -c1-160)"; done
