#!/bin/bash
# false-alarm sweep: every quick check at several VERIF_SEED values on the current tree; prints one line per run
cd "$(dirname "$0")/.." && make setup >/dev/null 2>&1
for seed in ${SEEDS:-2 3 4 5 6}; do for p in ${PROPS:-C01 C06 C07 C08 C09 C12 C14 C17 C18 C19}; do
  out=$(VERIF_SEED=$seed bin/check $p --no-evidence 2>&1); rc=$?; echo "seed=$seed rc=$rc $(echo "$out" | tail -1)"; [ $rc -ne 0 ] && echo "$out" | grep -E "VIOLATION|violation|MACHINERY" | head -5
done; done
