# Builds libtins from /repo's CURRENT working tree into /verif/build/<flavour>/ and links the engines.
# Flavours: asan (g++ ASan+UBSan), sancov (clang trace-pc-guard + loads/stores, for thr), plain (g++ -O2, valgrind)
REPO ?= /repo
V := $(patsubst %/,%,$(dir $(abspath $(lastword $(MAKEFILE_LIST)))))
BUILD ?= asan
BUILDROOT ?= $(V)/build
B := $(BUILDROOT)/$(BUILD)
SRCS := $(shell find $(REPO)/src -name '*.cpp' | sort)
OBJS := $(patsubst $(REPO)/src/%.cpp,$(B)/obj/%.o,$(SRCS))
INC := -I$(V)/sim/cfg -I$(REPO)/include -I$(V)/sim -I$(V)/engines
DEFS := -DLIBTINS_VERIF -DTINS_STATIC

ifeq ($(BUILD),asan)
CXX := g++
SAN := -fsanitize=address,undefined -fno-sanitize=enum -fno-sanitize-recover=undefined -fno-omit-frame-pointer
CXXFLAGS := -std=c++14 -O1 -g1 $(SAN) -w
LDFLAGS := $(SAN)
endif
ifeq ($(BUILD),asancov)
# asan + gcc trace-pc: deterministic basic-block counter (step budget) for the wire engine
CXX := g++
SAN := -fsanitize=address,undefined -fno-sanitize=enum -fno-sanitize-recover=undefined -fno-omit-frame-pointer
CXXFLAGS := -std=c++14 -O1 -g1 $(SAN) -fsanitize-coverage=trace-pc -w
ENGCXXFLAGS := -std=c++14 -O1 -g1 $(SAN) -w
LDFLAGS := $(SAN)
endif
ifeq ($(BUILD),sancov)
CXX := clang++
CXXFLAGS := -std=c++14 -O1 -g1 -gdwarf-4 -fsanitize-coverage=trace-pc-guard,trace-loads,trace-stores -w
# the harness itself is not instrumented (only libtins is scheduled and monitored)
ENGCXXFLAGS := -std=c++14 -O1 -g1 -gdwarf-4 -w
LDFLAGS := -Wl,--wrap=__cxa_guard_acquire -Wl,--wrap=__cxa_guard_release -Wl,--wrap=__cxa_guard_abort $(foreach f,inet_ntoa localtime gmtime ctime asctime strtok rand strerror gethostbyname ether_ntoa getservbyname setlocale HMAC SHA1 MD5 memcpy memmove memset strcpy strncpy snprintf vsnprintf sprintf,-Wl,--wrap=$(f))
endif
ifeq ($(BUILD),cov)
# line coverage of /repo/src per engine (tools/coverage.sh); not used by any registered check
CXX := g++
CXXFLAGS := -std=c++14 -O0 -g1 --coverage -w
ENGCXXFLAGS := -std=c++14 -O1 -g1 -w -DVERIF_COV
LDFLAGS := --coverage
endif
ifeq ($(BUILD),plain)
# for valgrind spot checks (uninitialised reads, which the sanitizer flavours cannot see)
CXX := g++
CXXFLAGS := -std=c++14 -O1 -g1 -w
ENGCXXFLAGS := -std=c++14 -O1 -g1 -w -DVERIF_NO_LEDGER
LDFLAGS :=
endif
LIBS := -lpcap -lcrypto -lpthread -ldl

ENGINES_asan := tcp frag sock disk own wlan
ENGINES_asancov := wire
ENGINES_sancov := thr
ENGINES_plain := tcp frag wire wlan
ENGINES ?= $(ENGINES_$(BUILD))

.PHONY: all lib setup clean engines
.SECONDARY:
all: lib

lib: $(B)/libtins.a

$(B)/obj/%.o: $(REPO)/src/%.cpp
	@mkdir -p $(dir $@)
	$(CXX) $(CXXFLAGS) $(DEFS) $(INC) -MMD -MP -c $< -o $@

# archive is rebuilt from the exact current object list so deleted sources do not linger
$(B)/libtins.a: $(OBJS)
	@rm -f $@
	ar rcs $@ $(OBJS)

# engines include libtins headers directly (templates such as sniff_loop live there): any header change rebuilds them
HDRS := $(shell find $(REPO)/include -name '*.h' | sort)
$(B)/%: $(V)/engines/%.cpp $(B)/libtins.a $(wildcard $(V)/sim/*.hpp) $(wildcard $(V)/engines/*.inc) $(HDRS)
	$(CXX) $(if $(ENGCXXFLAGS),$(ENGCXXFLAGS),$(CXXFLAGS)) $(ENGFLAGS_$*) $(DEFS) $(INC) $< -o $@ $(B)/libtins.a $(LDFLAGS) $(LIBS) $(ENGLIBS_$*)

engine-%: $(B)/%
	@true

setup:
	$(MAKE) -C $(V) BUILD=asan lib -j16
	for e in $(ENGINES_asan); do if [ -f $(V)/engines/$$e.cpp ]; then $(MAKE) -C $(V) BUILD=asan engine-$$e || exit 1; fi; done
	if [ -f $(V)/engines/wire.cpp ]; then $(MAKE) -C $(V) BUILD=asancov lib -j16 && $(MAKE) -C $(V) BUILD=asancov engine-wire; fi
	if [ -f $(V)/engines/wire.cpp ]; then $(MAKE) -C $(V) BUILD=plain lib -j16 && $(MAKE) -C $(V) BUILD=plain engine-wire; fi
	if [ -f $(V)/engines/thr.cpp ]; then $(MAKE) -C $(V) BUILD=sancov lib -j16 && $(MAKE) -C $(V) BUILD=sancov engine-thr; fi

clean:
	rm -rf $(BUILDROOT)

-include $(OBJS:.o=.d)
