// Independent wire encoder/decoder used by the simulated endpoints and reference models.
// Deliberately does not use libtins: everything libtins parses in a simulated run was produced
// here, and everything libtins emits is decoded here.
#pragma once
#include "kernel.hpp"

namespace codec {
using sim::Bytes;

inline void put16(Bytes& b, uint16_t v) { b.push_back(v >> 8); b.push_back(v & 0xff); }
inline void put32(Bytes& b, uint32_t v) { put16(b, v >> 16); put16(b, v & 0xffff); }
inline void putb(Bytes& b, const Bytes& x) { b.insert(b.end(), x.begin(), x.end()); }
inline void putb(Bytes& b, const uint8_t* p, size_t n) { b.insert(b.end(), p, p + n); }
inline uint16_t get16(const uint8_t* p) { return (uint16_t)(p[0] << 8 | p[1]); }
inline uint32_t get32(const uint8_t* p) { return (uint32_t)p[0] << 24 | (uint32_t)p[1] << 16 | (uint32_t)p[2] << 8 | p[3]; }
inline void set16(Bytes& b, size_t off, uint16_t v) { b[off] = v >> 8; b[off + 1] = v & 0xff; }

inline uint32_t csum_add(uint32_t acc, const uint8_t* p, size_t n) {
    for (size_t i = 0; i + 1 < n; i += 2) acc += (uint32_t)(p[i] << 8 | p[i + 1]);
    if (n & 1) acc += (uint32_t)(p[n - 1] << 8);
    return acc;
}
inline uint16_t csum_fin(uint32_t acc) { while (acc >> 16) acc = (acc & 0xffff) + (acc >> 16); return (uint16_t)~acc; }
inline uint16_t inet_csum(const uint8_t* p, size_t n) { return csum_fin(csum_add(0, p, n)); }

struct Addr {            // IPv4 (len 4) or IPv6 (len 16)
    uint8_t b[16]; int len;
    Addr() : len(4) { memset(b, 0, 16); }
    static Addr v4(uint8_t a, uint8_t c, uint8_t d, uint8_t e) { Addr x; x.len = 4; x.b[0] = a; x.b[1] = c; x.b[2] = d; x.b[3] = e; return x; }
    static Addr v6(const uint8_t* p) { Addr x; x.len = 16; memcpy(x.b, p, 16); return x; }
    bool is6() const { return len == 16; }
    bool operator==(const Addr& o) const { return len == o.len && memcmp(b, o.b, len) == 0; }
    bool operator!=(const Addr& o) const { return !(*this == o); }
    bool operator<(const Addr& o) const { if (len != o.len) return len < o.len; return memcmp(b, o.b, len) < 0; }
    std::string str() const {
        if (len == 4) return sim::fmt("%u.%u.%u.%u", b[0], b[1], b[2], b[3]);
        std::string s; for (int i = 0; i < 16; i += 2) { if (i) s += ':'; s += sim::fmt("%x", b[i] << 8 | b[i + 1]); } return s;
    }
    std::string hexs() const { return sim::hex(b, len); }
    static Addr from_hex(const std::string& h) { Bytes x = sim::unhex(h); Addr a; a.len = (int)x.size() == 16 ? 16 : 4; memcpy(a.b, x.data(), std::min<size_t>(x.size(), 16)); return a; }
};

struct Mac { uint8_t b[6]; Mac() { memset(b, 0, 6); } static Mac of(uint8_t last) { Mac m; m.b[0] = 0x02; m.b[5] = last; return m; }
    bool operator==(const Mac& o) const { return memcmp(b, o.b, 6) == 0; } };

enum { TH_FIN = 1, TH_SYN = 2, TH_RST = 4, TH_PSH = 8, TH_ACK = 16, TH_URG = 32 };

struct TcpSeg {
    uint16_t sport, dport; uint32_t seq, ack; uint8_t flags; uint16_t win;
    Bytes options;    // raw, padded to multiple of 4 by the encoder
    Bytes payload;
    TcpSeg() : sport(0), dport(0), seq(0), ack(0), flags(0), win(65535) {}
    void opt_mss(uint16_t m) { options.push_back(2); options.push_back(4); put16(options, m); }
    void opt_sack_permitted() { options.push_back(4); options.push_back(2); }
    void opt_sack(const std::vector<std::pair<uint32_t, uint32_t> >& blocks) {
        options.push_back(1); options.push_back(1);     // NOPs for alignment, as real stacks do
        options.push_back(5); options.push_back((uint8_t)(2 + 8 * blocks.size()));
        for (auto& bl : blocks) { put32(options, bl.first); put32(options, bl.second); }
    }
    void opt_timestamp(uint32_t v, uint32_t e) { options.push_back(1); options.push_back(1); options.push_back(8); options.push_back(10); put32(options, v); put32(options, e); }
};

inline Bytes tcp_bytes(const TcpSeg& s, const Addr& src, const Addr& dst) {
    Bytes o = s.options; while (o.size() % 4) o.push_back(0);
    Bytes t; put16(t, s.sport); put16(t, s.dport); put32(t, s.seq); put32(t, s.ack);
    t.push_back((uint8_t)(((20 + o.size()) / 4) << 4)); t.push_back(s.flags); put16(t, s.win); put16(t, 0); put16(t, 0);
    putb(t, o); putb(t, s.payload);
    // pseudo header
    uint32_t acc = 0;
    acc = csum_add(acc, src.b, src.len); acc = csum_add(acc, dst.b, dst.len);
    if (src.is6()) { uint8_t ph[8] = { (uint8_t)(t.size() >> 24), (uint8_t)(t.size() >> 16), (uint8_t)(t.size() >> 8), (uint8_t)t.size(), 0, 0, 0, 6 }; acc = csum_add(acc, ph, 8); }
    else { uint8_t ph[4] = { 0, 6, (uint8_t)(t.size() >> 8), (uint8_t)t.size() }; acc = csum_add(acc, ph, 4); }
    acc = csum_add(acc, t.data(), t.size());
    set16(t, 16, csum_fin(acc));
    return t;
}

struct Ip4Hdr { uint8_t tos, ttl, proto; uint16_t id; bool df, mf; uint16_t frag_off8; Bytes options; Addr src, dst;
    Ip4Hdr() : tos(0), ttl(64), proto(6), id(0), df(false), mf(false), frag_off8(0) {} };

inline Bytes ip4_bytes(const Ip4Hdr& h, const Bytes& payload) {
    Bytes o = h.options; while (o.size() % 4) o.push_back(0);
    Bytes b; b.push_back((uint8_t)(0x40 | ((20 + o.size()) / 4))); b.push_back(h.tos); put16(b, (uint16_t)(20 + o.size() + payload.size()));
    put16(b, h.id); put16(b, (uint16_t)((h.df ? 0x4000 : 0) | (h.mf ? 0x2000 : 0) | (h.frag_off8 & 0x1fff)));
    b.push_back(h.ttl); b.push_back(h.proto); put16(b, 0); putb(b, h.src.b, 4); putb(b, h.dst.b, 4); putb(b, o);
    set16(b, 10, inet_csum(b.data(), b.size()));
    putb(b, payload);
    return b;
}
inline Bytes ip6_bytes(const Addr& src, const Addr& dst, uint8_t next, const Bytes& payload, uint8_t hop = 64) {
    Bytes b; put32(b, 0x60000000); put16(b, (uint16_t)payload.size()); b.push_back(next); b.push_back(hop);
    putb(b, src.b, 16); putb(b, dst.b, 16); putb(b, payload); return b;
}
// Ethernet II; pad_min pads to the 60-byte minimum like a real NIC does
inline Bytes eth_bytes(const Mac& dst, const Mac& src, uint16_t type, const Bytes& payload, bool pad_min = true) {
    Bytes b; putb(b, dst.b, 6); putb(b, src.b, 6); put16(b, type); putb(b, payload);
    if (pad_min) while (b.size() < 60) b.push_back(0);
    return b;
}
inline Bytes tcp_frame(const TcpSeg& s, const Addr& src, const Addr& dst, const Mac& ms, const Mac& md, uint16_t ipid = 0, bool pad = true) {
    Bytes t = tcp_bytes(s, src, dst);
    if (src.is6()) return eth_bytes(md, ms, 0x86dd, ip6_bytes(src, dst, 6, t), pad);
    Ip4Hdr h; h.proto = 6; h.id = ipid; h.src = src; h.dst = dst; h.df = true;
    return eth_bytes(md, ms, 0x0800, ip4_bytes(h, t), pad);
}

// ---------------------------------------------------------------- decoder (Ethernet II / IPv4 / IPv6 (no ext) / TCP)
struct Decoded {
    bool ok, is_ip, is_tcp; Mac msrc, mdst; uint16_t ethertype;
    Addr src, dst; uint8_t proto; uint16_t ipid; bool mf, df; uint16_t frag_off8; uint8_t ttl, tos; Bytes ip_options;
    Bytes l4;           // IP payload (trimmed to the IP length)
    TcpSeg tcp; std::vector<std::pair<uint32_t, uint32_t> > sack; bool has_sack, has_mss, sack_perm; uint16_t mss;
    Decoded() : ok(false), is_ip(false), is_tcp(false), ethertype(0), proto(0), ipid(0), mf(false), df(false), frag_off8(0), ttl(0), tos(0), has_sack(false), has_mss(false), sack_perm(false), mss(0) {}
};
inline bool decode_tcp(const uint8_t* p, size_t n, Decoded& d) {
    if (n < 20) return false;
    size_t hl = (p[12] >> 4) * 4; if (hl < 20 || hl > n) return false;
    d.tcp.sport = get16(p); d.tcp.dport = get16(p + 2); d.tcp.seq = get32(p + 4); d.tcp.ack = get32(p + 8);
    d.tcp.flags = p[13]; d.tcp.win = get16(p + 14);
    d.tcp.options.assign(p + 20, p + hl); d.tcp.payload.assign(p + hl, p + n);
    size_t i = 20;
    while (i < hl) {
        uint8_t k = p[i]; if (k == 0) break; if (k == 1) { ++i; continue; }
        if (i + 1 >= hl) break; uint8_t l = p[i + 1]; if (l < 2 || i + l > hl) break;
        if (k == 2 && l == 4) { d.has_mss = true; d.mss = get16(p + i + 2); }
        if (k == 4) d.sack_perm = true;
        if (k == 5) { d.has_sack = true; for (size_t j = i + 2; j + 8 <= i + l; j += 8) d.sack.push_back(std::make_pair(get32(p + j), get32(p + j + 4))); }
        i += l;
    }
    d.is_tcp = true; return true;
}
inline Decoded decode_ip(const uint8_t* p, size_t n) {
    Decoded d; if (n < 1) return d;
    if ((p[0] >> 4) == 4) {
        if (n < 20) return d; size_t hl = (p[0] & 15) * 4; if (hl < 20 || hl > n) return d;
        size_t tot = get16(p + 2); if (tot < hl) return d; if (tot > n) tot = n;
        d.tos = p[1]; d.ipid = get16(p + 4); uint16_t fo = get16(p + 6); d.df = fo & 0x4000; d.mf = fo & 0x2000; d.frag_off8 = fo & 0x1fff;
        d.ttl = p[8]; d.proto = p[9]; d.src = Addr::v4(p[12], p[13], p[14], p[15]); d.dst = Addr::v4(p[16], p[17], p[18], p[19]);
        d.ip_options.assign(p + 20, p + hl); d.l4.assign(p + hl, p + tot); d.is_ip = true; d.ok = true;
    } else if ((p[0] >> 4) == 6) {
        if (n < 40) return d; size_t pl = get16(p + 4); if (40 + pl > n) pl = n - 40;
        d.proto = p[6]; d.ttl = p[7]; d.src = Addr::v6(p + 8); d.dst = Addr::v6(p + 24); d.l4.assign(p + 40, p + 40 + pl); d.is_ip = true; d.ok = true;
    }
    if (d.is_ip && d.proto == 6 && !d.mf && d.frag_off8 == 0) decode_tcp(d.l4.data(), d.l4.size(), d);
    return d;
}
inline Decoded decode_eth(const Bytes& f) {
    Decoded d; if (f.size() < 14) return d;
    uint16_t et = get16(&f[12]);
    Decoded r; if (et == 0x0800 || et == 0x86dd) r = decode_ip(&f[14], f.size() - 14);
    memcpy(r.mdst.b, &f[0], 6); memcpy(r.msrc.b, &f[6], 6); r.ethertype = et; r.ok = true; return r;
}


// ---------------------------------------------------------------- more encoders (UDP, ICMP, ICMPv6, DNS, 802.1Q)
inline uint32_t pseudo_acc(const Addr& src, const Addr& dst, uint8_t proto, size_t len) {
    uint32_t acc = csum_add(0, src.b, src.len); acc = csum_add(acc, dst.b, dst.len);
    if (src.is6()) { uint8_t ph[8] = { (uint8_t)(len >> 24), (uint8_t)(len >> 16), (uint8_t)(len >> 8), (uint8_t)len, 0, 0, 0, proto }; acc = csum_add(acc, ph, 8); }
    else { uint8_t ph[4] = { 0, proto, (uint8_t)(len >> 8), (uint8_t)len }; acc = csum_add(acc, ph, 4); }
    return acc;
}
inline Bytes udp_bytes(uint16_t sport, uint16_t dport, const Bytes& payload, const Addr& src, const Addr& dst) {
    Bytes b; put16(b, sport); put16(b, dport); put16(b, (uint16_t)(8 + payload.size())); put16(b, 0); putb(b, payload);
    uint16_t c = csum_fin(csum_add(pseudo_acc(src, dst, 17, b.size()), b.data(), b.size())); if (c == 0) c = 0xffff; set16(b, 6, c); return b;
}
inline Bytes icmp_bytes(uint8_t type, uint8_t code, uint16_t id, uint16_t seq, const Bytes& rest) {
    Bytes b; b.push_back(type); b.push_back(code); put16(b, 0); put16(b, id); put16(b, seq); putb(b, rest); set16(b, 2, inet_csum(b.data(), b.size())); return b;
}
inline Bytes icmp6_bytes(uint8_t type, uint8_t code, uint16_t id, uint16_t seq, const Bytes& rest, const Addr& src, const Addr& dst) {
    Bytes b; b.push_back(type); b.push_back(code); put16(b, 0); put16(b, id); put16(b, seq); putb(b, rest);
    set16(b, 2, csum_fin(csum_add(pseudo_acc(src, dst, 58, b.size()), b.data(), b.size()))); return b;
}
// DNS message with one question (name given as dotted string); response adds one A answer with a compression pointer
inline Bytes dns_bytes(uint16_t id, bool response, const std::string& name, bool with_answer) {
    Bytes b; put16(b, id); put16(b, response ? 0x8180 : 0x0100); put16(b, 1); put16(b, with_answer ? 1 : 0); put16(b, 0); put16(b, 0);
    size_t a = 0; while (a <= name.size()) { size_t d = name.find('.', a); if (d == std::string::npos) d = name.size(); b.push_back((uint8_t)(d - a)); for (size_t i = a; i < d; ++i) b.push_back((uint8_t)name[i]); a = d + 1; }
    b.push_back(0); put16(b, 1); put16(b, 1);
    if (with_answer) { put16(b, 0xc00c); put16(b, 1); put16(b, 1); put32(b, 300); put16(b, 4); put32(b, 0x01020304); }
    return b;
}
inline Bytes eth_vlan_bytes(const Mac& dst, const Mac& src, uint16_t vlan_tci, uint16_t type, const Bytes& payload, bool pad_min = true) {
    Bytes b; putb(b, dst.b, 6); putb(b, src.b, 6); put16(b, 0x8100); put16(b, vlan_tci); put16(b, type); putb(b, payload);
    if (pad_min) while (b.size() < 60) b.push_back(0);
    return b;
}

// serial-number arithmetic (RFC 1982) on 32 bits
inline int32_t seq_diff(uint32_t a, uint32_t b) { return (int32_t)(a - b); }

} // namespace codec
