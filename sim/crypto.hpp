// Independent implementations of the 802.11 ciphers and key hierarchy, written from the standard, used by the simulated
// AP/STA and by the oracle of the wlan engine. OpenSSL is used only for primitives (AES-CCM mode, HMAC, PBKDF2); RC4, CRC-32,
// Michael, the TKIP key mixing (with an S-box derived algorithmically from the AES S-box) and all header/AAD/nonce
// constructions are our own. Validated against the real captures in sim/fixtures before any batch starts.
#pragma once
#include "kernel.hpp"
#include "codec.hpp"
#include <openssl/evp.h>
#include <openssl/hmac.h>

namespace wcrypto {
using sim::Bytes; using codec::Mac;

// ---------------------------------------------------------------- CRC-32 (IEEE), RC4
inline uint32_t crc32(const uint8_t* p, size_t n) { uint32_t c = 0xffffffffu; for (size_t i = 0; i < n; ++i) { c ^= p[i]; for (int k = 0; k < 8; ++k) c = (c >> 1) ^ (0xedb88320u & (0u - (c & 1))); } return ~c; }
struct RC4 { uint8_t s[256]; int i, j; RC4(const uint8_t* key, size_t n) : i(0), j(0) { for (int k = 0; k < 256; ++k) s[k] = (uint8_t)k; int jj = 0; for (int k = 0; k < 256; ++k) { jj = (jj + s[k] + key[k % n]) & 255; std::swap(s[k], s[jj]); } }
    void crypt(uint8_t* p, size_t n) { for (size_t k = 0; k < n; ++k) { i = (i + 1) & 255; j = (j + s[i]) & 255; std::swap(s[i], s[j]); p[k] ^= s[(s[i] + s[j]) & 255]; } } };

// ---------------------------------------------------------------- WEP: body = IV(3) keyid(1) RC4(data || ICV)
inline Bytes wep_encrypt(const Bytes& key, const uint8_t iv[3], uint8_t keyid, const Bytes& plain) {
    Bytes k(iv, iv + 3); k.insert(k.end(), key.begin(), key.end()); Bytes d = plain; uint32_t c = crc32(plain.data(), plain.size()); for (int i = 0; i < 4; ++i) d.push_back((uint8_t)(c >> (8 * i)));
    RC4 r(k.data(), k.size()); r.crypt(d.data(), d.size()); Bytes out(iv, iv + 3); out.push_back((uint8_t)(keyid << 6)); out.insert(out.end(), d.begin(), d.end()); return out;
}
inline bool wep_decrypt(const Bytes& key, const Bytes& body, Bytes& plain) {
    if (body.size() < 8) return false; Bytes k(body.begin(), body.begin() + 3); k.insert(k.end(), key.begin(), key.end()); Bytes d(body.begin() + 4, body.end()); RC4 r(k.data(), k.size()); r.crypt(d.data(), d.size());
    uint32_t c = crc32(d.data(), d.size() - 4); for (int i = 0; i < 4; ++i) if (d[d.size() - 4 + i] != (uint8_t)(c >> (8 * i))) return false; plain.assign(d.begin(), d.end() - 4); return true;
}

// ---------------------------------------------------------------- AES S-box (computed) and the TKIP S-box derived from it
inline const uint8_t* aes_sbox() { static uint8_t s[256]; static bool done = false; if (!done) { done = true; uint8_t p = 1, q = 1; do { p = (uint8_t)(p ^ (p << 1) ^ ((p & 0x80) ? 0x1b : 0)); q ^= q << 1; q ^= q << 2; q ^= q << 4; if (q & 0x80) q ^= 0x09; uint8_t x = (uint8_t)(q ^ ((q << 1) | (q >> 7)) ^ ((q << 2) | (q >> 6)) ^ ((q << 3) | (q >> 5)) ^ ((q << 4) | (q >> 4))); s[p] = x ^ 0x63; } while (p != 1); s[0] = 0x63; } return s; }
inline uint16_t tkip_S(uint16_t v) { const uint8_t* a = aes_sbox(); auto e = [&](uint8_t i) -> uint16_t { uint8_t x = a[i]; uint8_t x2 = (uint8_t)((x << 1) ^ ((x & 0x80) ? 0x1b : 0)); return (uint16_t)((x2 << 8) | (x2 ^ x)); }; uint16_t lo = e((uint8_t)(v & 0xff)), hi = e((uint8_t)(v >> 8)); return (uint16_t)(lo ^ (uint16_t)((hi << 8) | (hi >> 8))); }
inline uint16_t mk16(uint8_t hi, uint8_t lo) { return (uint16_t)((hi << 8) | lo); }
inline uint16_t rotr1(uint16_t v) { return (uint16_t)((v >> 1) | (v << 15)); }
inline void tkip_rc4key(const uint8_t tk[16], const uint8_t ta[6], uint32_t iv32, uint16_t iv16, uint8_t out[16]) {
    uint16_t p[6]; p[0] = (uint16_t)(iv32 & 0xffff); p[1] = (uint16_t)(iv32 >> 16); p[2] = mk16(ta[1], ta[0]); p[3] = mk16(ta[3], ta[2]); p[4] = mk16(ta[5], ta[4]);
    for (int i = 0; i < 8; ++i) { int j = 2 * (i & 1); p[0] += tkip_S(p[4] ^ mk16(tk[1 + j], tk[0 + j])); p[1] += tkip_S(p[0] ^ mk16(tk[5 + j], tk[4 + j])); p[2] += tkip_S(p[1] ^ mk16(tk[9 + j], tk[8 + j])); p[3] += tkip_S(p[2] ^ mk16(tk[13 + j], tk[12 + j])); p[4] += tkip_S(p[3] ^ mk16(tk[1 + j], tk[0 + j])); p[4] += (uint16_t)i; }
    p[5] = (uint16_t)(p[4] + iv16);
    p[0] += tkip_S(p[5] ^ mk16(tk[1], tk[0])); p[1] += tkip_S(p[0] ^ mk16(tk[3], tk[2])); p[2] += tkip_S(p[1] ^ mk16(tk[5], tk[4])); p[3] += tkip_S(p[2] ^ mk16(tk[7], tk[6])); p[4] += tkip_S(p[3] ^ mk16(tk[9], tk[8])); p[5] += tkip_S(p[4] ^ mk16(tk[11], tk[10]));
    p[0] += rotr1(p[5] ^ mk16(tk[13], tk[12])); p[1] += rotr1(p[0] ^ mk16(tk[15], tk[14])); p[2] += rotr1(p[1]); p[3] += rotr1(p[2]); p[4] += rotr1(p[3]); p[5] += rotr1(p[4]);
    out[0] = (uint8_t)(iv16 >> 8); out[1] = (uint8_t)(((iv16 >> 8) | 0x20) & 0x7f); out[2] = (uint8_t)(iv16 & 0xff); out[3] = (uint8_t)((p[5] ^ mk16(tk[1], tk[0])) >> 1);
    for (int i = 0; i < 6; ++i) { out[4 + 2 * i] = (uint8_t)(p[i] & 0xff); out[5 + 2 * i] = (uint8_t)(p[i] >> 8); }
}
// Michael
inline void michael(const uint8_t key[8], const uint8_t* da, const uint8_t* sa, uint8_t prio, const Bytes& data, uint8_t mic[8]) {
    auto rd = [](const uint8_t* p) { return (uint32_t)p[0] | (uint32_t)p[1] << 8 | (uint32_t)p[2] << 16 | (uint32_t)p[3] << 24; };
    uint32_t l = rd(key), r = rd(key + 4);
    auto rol = [](uint32_t v, int n) { return (v << n) | (v >> (32 - n)); }; auto ror = [](uint32_t v, int n) { return (v >> n) | (v << (32 - n)); };
    auto block = [&](uint32_t m) { l ^= m; r ^= rol(l, 17); l += r; r ^= ((l & 0xff00ff00u) >> 8) | ((l & 0x00ff00ffu) << 8); l += r; r ^= rol(l, 3); l += r; r ^= ror(l, 2); l += r; };
    Bytes m; m.insert(m.end(), da, da + 6); m.insert(m.end(), sa, sa + 6); m.push_back(prio); m.push_back(0); m.push_back(0); m.push_back(0); m.insert(m.end(), data.begin(), data.end()); m.push_back(0x5a); for (int i = 0; i < 4; ++i) m.push_back(0); while (m.size() % 4) m.push_back(0);
    for (size_t i = 0; i + 4 <= m.size(); i += 4) block(rd(&m[i]));
    for (int i = 0; i < 4; ++i) { mic[i] = (uint8_t)(l >> (8 * i)); mic[4 + i] = (uint8_t)(r >> (8 * i)); }
}
// TKIP body = IV/ExtIV(8) RC4(data || MIC(8) || ICV(4))
inline Bytes tkip_encrypt(const uint8_t tk[16], const uint8_t mic_key[8], const uint8_t ta[6], const uint8_t* da, const uint8_t* sa, uint8_t prio, uint64_t tsc, uint8_t keyid, const Bytes& plain) {
    uint16_t iv16 = (uint16_t)(tsc & 0xffff); uint32_t iv32 = (uint32_t)(tsc >> 16); uint8_t k[16]; tkip_rc4key(tk, ta, iv32, iv16, k);
    Bytes d = plain; uint8_t mic[8]; michael(mic_key, da, sa, prio, plain, mic); d.insert(d.end(), mic, mic + 8); uint32_t c = crc32(d.data(), d.size()); for (int i = 0; i < 4; ++i) d.push_back((uint8_t)(c >> (8 * i)));
    RC4 r(k, 16); r.crypt(d.data(), d.size());
    Bytes out; out.push_back((uint8_t)(iv16 >> 8)); out.push_back((uint8_t)(((iv16 >> 8) | 0x20) & 0x7f)); out.push_back((uint8_t)(iv16 & 0xff)); out.push_back((uint8_t)((keyid << 6) | 0x20)); for (int i = 0; i < 4; ++i) out.push_back((uint8_t)(iv32 >> (8 * i))); out.insert(out.end(), d.begin(), d.end()); return out;
}
inline bool tkip_decrypt(const uint8_t tk[16], const uint8_t mic_key[8], const uint8_t ta[6], const uint8_t* da, const uint8_t* sa, uint8_t prio, const Bytes& body, Bytes& plain, bool* mic_ok = 0) {
    if (body.size() < 8 + 12) return false; uint16_t iv16 = (uint16_t)((body[0] << 8) | body[2]); uint32_t iv32 = (uint32_t)body[4] | (uint32_t)body[5] << 8 | (uint32_t)body[6] << 16 | (uint32_t)body[7] << 24;
    uint8_t k[16]; tkip_rc4key(tk, ta, iv32, iv16, k); Bytes d(body.begin() + 8, body.end()); RC4 r(k, 16); r.crypt(d.data(), d.size());
    uint32_t c = crc32(d.data(), d.size() - 4); for (int i = 0; i < 4; ++i) if (d[d.size() - 4 + i] != (uint8_t)(c >> (8 * i))) return false;
    plain.assign(d.begin(), d.end() - 12); uint8_t mic[8]; michael(mic_key, da, sa, prio, plain, mic); if (mic_ok) *mic_ok = memcmp(mic, &d[d.size() - 12], 8) == 0; return true;
}

// ---------------------------------------------------------------- CCMP
struct Dot11Hdr { uint16_t fc; uint8_t a1[6], a2[6], a3[6], a4[6]; uint16_t sc; bool has_a4, qos; uint16_t qc; };
inline void ccmp_aad_nonce(const Dot11Hdr& h, const uint8_t pn[6] /* PN0..PN5 */, Bytes& aad, uint8_t nonce[13]) {
    uint16_t fc = h.fc; fc &= (uint16_t)~0x0070; /* subtype b4-b6 */ fc &= (uint16_t)~0x3800; /* retry, pwrmgt, moredata */ fc |= 0x4000; if (h.qos) fc &= (uint16_t)~0x8000;
    aad.clear(); aad.push_back((uint8_t)(fc & 0xff)); aad.push_back((uint8_t)(fc >> 8)); aad.insert(aad.end(), h.a1, h.a1 + 6); aad.insert(aad.end(), h.a2, h.a2 + 6); aad.insert(aad.end(), h.a3, h.a3 + 6);
    aad.push_back((uint8_t)(h.sc & 0x0f)); aad.push_back(0); if (h.has_a4) aad.insert(aad.end(), h.a4, h.a4 + 6); if (h.qos) { aad.push_back((uint8_t)(h.qc & 0x0f)); aad.push_back(0); }
    nonce[0] = h.qos ? (uint8_t)(h.qc & 0x0f) : 0; memcpy(nonce + 1, h.a2, 6); for (int i = 0; i < 6; ++i) nonce[7 + i] = pn[5 - i];
}
inline Bytes ccmp_encrypt(const uint8_t tk[16], const Dot11Hdr& h, uint64_t pn48, uint8_t keyid, const Bytes& plain) {
    uint8_t pn[6]; for (int i = 0; i < 6; ++i) pn[i] = (uint8_t)(pn48 >> (8 * i)); Bytes aad; uint8_t nonce[13]; ccmp_aad_nonce(h, pn, aad, nonce);
    Bytes out; out.push_back(pn[0]); out.push_back(pn[1]); out.push_back(0); out.push_back((uint8_t)((keyid << 6) | 0x20)); out.push_back(pn[2]); out.push_back(pn[3]); out.push_back(pn[4]); out.push_back(pn[5]);
    EVP_CIPHER_CTX* c = EVP_CIPHER_CTX_new(); int len = 0; Bytes ct(plain.size() + 16); uint8_t tag[8];
    EVP_EncryptInit_ex(c, EVP_aes_128_ccm(), 0, 0, 0); EVP_CIPHER_CTX_ctrl(c, EVP_CTRL_CCM_SET_IVLEN, 13, 0); EVP_CIPHER_CTX_ctrl(c, EVP_CTRL_CCM_SET_TAG, 8, 0); EVP_EncryptInit_ex(c, 0, 0, tk, nonce);
    EVP_EncryptUpdate(c, 0, &len, 0, (int)plain.size()); EVP_EncryptUpdate(c, 0, &len, aad.data(), (int)aad.size());
    static const uint8_t z = 0; EVP_EncryptUpdate(c, ct.data(), &len, plain.empty() ? &z : plain.data(), (int)plain.size()); int total = len; EVP_EncryptFinal_ex(c, ct.data() + total, &len); EVP_CIPHER_CTX_ctrl(c, EVP_CTRL_CCM_GET_TAG, 8, tag); EVP_CIPHER_CTX_free(c);
    out.insert(out.end(), ct.begin(), ct.begin() + plain.size()); out.insert(out.end(), tag, tag + 8); return out;
}
inline bool ccmp_decrypt(const uint8_t tk[16], const Dot11Hdr& h, const Bytes& body, Bytes& plain) {
    if (body.size() < 16) return false; uint8_t pn[6] = { body[0], body[1], body[4], body[5], body[6], body[7] }; Bytes aad; uint8_t nonce[13]; ccmp_aad_nonce(h, pn, aad, nonce);
    size_t n = body.size() - 16; EVP_CIPHER_CTX* c = EVP_CIPHER_CTX_new(); int len = 0; plain.assign(n + 16, 0);
    EVP_DecryptInit_ex(c, EVP_aes_128_ccm(), 0, 0, 0); EVP_CIPHER_CTX_ctrl(c, EVP_CTRL_CCM_SET_IVLEN, 13, 0); EVP_CIPHER_CTX_ctrl(c, EVP_CTRL_CCM_SET_TAG, 8, (void*)(body.data() + body.size() - 8)); EVP_DecryptInit_ex(c, 0, 0, tk, nonce);
    EVP_DecryptUpdate(c, 0, &len, 0, (int)n); EVP_DecryptUpdate(c, 0, &len, aad.data(), (int)aad.size()); static const uint8_t z = 0; int ok = EVP_DecryptUpdate(c, plain.data(), &len, n ? body.data() + 8 : &z, (int)n); EVP_CIPHER_CTX_free(c); plain.resize(n); return ok > 0;
}

// ---------------------------------------------------------------- key hierarchy
inline Bytes pmk_of(const std::string& pass, const std::string& ssid) { Bytes k(32); PKCS5_PBKDF2_HMAC_SHA1(pass.c_str(), (int)pass.size(), (const unsigned char*)ssid.data(), (int)ssid.size(), 4096, 32, k.data()); return k; }
inline Bytes ptk_of(const Bytes& pmk, const uint8_t aa[6], const uint8_t spa[6], const uint8_t anonce[32], const uint8_t snonce[32]) {
    uint8_t buf[100]; const char* label = "Pairwise key expansion"; memcpy(buf, label, 22); buf[22] = 0; const uint8_t* lo = memcmp(aa, spa, 6) < 0 ? aa : spa; const uint8_t* hi = lo == aa ? spa : aa; memcpy(buf + 23, lo, 6); memcpy(buf + 29, hi, 6);
    const uint8_t* nl = memcmp(anonce, snonce, 32) < 0 ? anonce : snonce; const uint8_t* nh = nl == anonce ? snonce : anonce; memcpy(buf + 35, nl, 32); memcpy(buf + 67, nh, 32);
    Bytes out(80); for (int i = 0; i < 4; ++i) { buf[99] = (uint8_t)i; unsigned int l = 20; HMAC(EVP_sha1(), pmk.data(), (int)pmk.size(), buf, 100, out.data() + 20 * i, &l); } out.resize(64); return out;
}
inline void eapol_mic(const Bytes& kck16, int desc_version, const Bytes& eapol_frame_mic_zeroed, uint8_t mic[16]) {
    uint8_t md[20]; unsigned int l = 20; if (desc_version == 1) HMAC(EVP_md5(), kck16.data(), 16, eapol_frame_mic_zeroed.data(), eapol_frame_mic_zeroed.size(), md, &l); else HMAC(EVP_sha1(), kck16.data(), 16, eapol_frame_mic_zeroed.data(), eapol_frame_mic_zeroed.size(), md, &l); memcpy(mic, md, 16);
}

} // namespace wcrypto
