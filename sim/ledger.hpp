// Allocator seam (shared by the own and wire engines): replaces global operator new/delete in the harness executable.
// Counts allocations made while a ledger::Scope is active (library calls) and can make the n-th one throw bad_alloc.
#pragma once
#include <new>
#include <stdlib.h>
#include <string.h>
#include <stdint.h>

// ============================================================================ allocator seam
namespace ledger {
static int fill = -1;   /* >= 0: fresh allocations made inside library calls are filled with this byte */
static bool in_sut = false; static int64_t live = 0; static int64_t fail_countdown = 0; static uint64_t allocs_in_op = 0, failures = 0; static size_t fail_min_size = 0;   /* only requests of at least that many bytes count towards (and are hit by) the countdown */
static const uint64_t TAG_SUT = 0x5355545f414c4c4fULL, TAG_OTHER = 0x4f544845525f414cULL;
#ifndef VERIF_NO_LEDGER
static void* alloc(size_t n, bool nothrow) {
    if (in_sut) { ++allocs_in_op; if (fail_countdown > 0 && n >= fail_min_size && --fail_countdown == 0) { ++failures; if (nothrow) return 0; throw std::bad_alloc(); } }
    uint64_t* p = (uint64_t*)malloc(n + 16); if (!p) { if (nothrow) return 0; throw std::bad_alloc(); }
    p[0] = in_sut ? TAG_SUT : TAG_OTHER; p[1] = n; if (in_sut) { ++live; if (fill >= 0) memset(p + 2, fill, n); } return p + 2;
}
static void release(void* v) { if (!v) return; uint64_t* p = (uint64_t*)v - 2; if (p[0] == TAG_SUT) --live; p[0] = 0; free(p); }
#endif
struct Scope { bool prev; Scope() : prev(in_sut) { in_sut = true; } ~Scope() { in_sut = prev; } };
struct Unscope { bool prev; Unscope() : prev(in_sut) { in_sut = false; } ~Unscope() { in_sut = prev; } };   /* application callbacks invoked from inside a library call */
#define SUT(...) do { ledger::Scope sut_scope_; __VA_ARGS__; } while (0)
}
#ifndef VERIF_NO_LEDGER   /* the valgrind flavour keeps the default allocator (valgrind replaces it itself) */
void* operator new(size_t n) { return ledger::alloc(n, false); }
void* operator new[](size_t n) { return ledger::alloc(n, false); }
void* operator new(size_t n, const std::nothrow_t&) noexcept { return ledger::alloc(n, true); }
void* operator new[](size_t n, const std::nothrow_t&) noexcept { return ledger::alloc(n, true); }
void operator delete(void* p) noexcept { ledger::release(p); }
void operator delete[](void* p) noexcept { ledger::release(p); }
void operator delete(void* p, size_t) noexcept { ledger::release(p); }
void operator delete[](void* p, size_t) noexcept { ledger::release(p); }
void operator delete(void* p, const std::nothrow_t&) noexcept { ledger::release(p); }
void operator delete[](void* p, const std::nothrow_t&) noexcept { ledger::release(p); }

#endif
