// Deterministic-simulation kernel shared by all engines.
//   - one integer decides everything: xoshiro256** seeded from VERIF_SEED, forked per purpose
//   - discrete-event queue ordered by (time, seq)
//   - plan = explicit, PRNG-free list of steps (the replay file)
//   - batch runner with long-lived forked workers, crash attribution, ddmin minimiser that
//     runs every attempt in a forked child (so sanitizer deaths are just another verdict class)
//   - determinism gate (same plan twice => same trace hash) and fresh-process replay gate
// Nothing in here reads a clock for a decision that reaches a trace; wall time is read with the
// raw system call (engines may interpose clock_gettime) and only bounds batches.
#pragma once
#include <stdint.h>
#include <stdio.h>
#include <stdlib.h>
#include <string.h>
#include <stdarg.h>
#include <unistd.h>
#include <signal.h>
#include <errno.h>
#include <fcntl.h>
#include <sys/mman.h>
#include <sys/wait.h>
#include <sys/syscall.h>
#include <sys/stat.h>
#include <time.h>
#include <string>
#include <vector>
#include <map>
#include <set>
#include <queue>
#include <functional>
#include <algorithm>
#include <sstream>
#include <exception>
#include <typeinfo>
#include <cxxabi.h>

#ifdef VERIF_COV
extern "C" void __gcov_dump(void);   // coverage flavour only: workers leave through _exit
#endif
namespace sim {
inline void flush_coverage() {
#ifdef VERIF_COV
    __gcov_dump();
#endif
}

typedef std::vector<uint8_t> Bytes;

// ------------------------------------------------------------------ real time (driver only)
inline double wall_now() {
    struct timespec ts;
    syscall(SYS_clock_gettime, CLOCK_MONOTONIC, &ts);
    return ts.tv_sec + ts.tv_nsec * 1e-9;
}

// ------------------------------------------------------------------ PRNG
inline uint64_t splitmix64(uint64_t& x) {
    uint64_t z = (x += 0x9e3779b97f4a7c15ULL);
    z = (z ^ (z >> 30)) * 0xbf58476d1ce4e5b9ULL;
    z = (z ^ (z >> 27)) * 0x94d049bb133111ebULL;
    return z ^ (z >> 31);
}
inline uint64_t mix64(uint64_t a, uint64_t b) {
    uint64_t x = a ^ (b * 0x9e3779b97f4a7c15ULL + 0x7f4a7c15ULL);
    return splitmix64(x);
}
inline uint64_t fnv1a(const void* p, size_t n, uint64_t h = 0xcbf29ce484222325ULL) {
    const uint8_t* b = (const uint8_t*)p;
    for (size_t i = 0; i < n; ++i) { h ^= b[i]; h *= 0x100000001b3ULL; }
    return h;
}
inline uint64_t fnv1a(const std::string& s, uint64_t h = 0xcbf29ce484222325ULL) {
    return fnv1a(s.data(), s.size(), h);
}

struct Rng {
    uint64_t s[4];
    explicit Rng(uint64_t seed = 1) { reseed(seed); }
    void reseed(uint64_t seed) { uint64_t x = seed; for (int i = 0; i < 4; ++i) s[i] = splitmix64(x); }
    static uint64_t rotl(uint64_t x, int k) { return (x << k) | (x >> (64 - k)); }
    uint64_t next() {
        const uint64_t r = rotl(s[1] * 5, 7) * 9, t = s[1] << 17;
        s[2] ^= s[0]; s[3] ^= s[1]; s[1] ^= s[2]; s[0] ^= s[3]; s[2] ^= t; s[3] = rotl(s[3], 45);
        return r;
    }
    // independent sub-stream; does not advance this generator
    Rng fork(const char* label) const { return Rng(mix64(s[0] ^ rotl(s[2], 13), fnv1a(label, strlen(label)))); }
    uint64_t below(uint64_t n) { return n ? next() % n : 0; }               // [0,n)
    int64_t range(int64_t lo, int64_t hi) { return lo + (int64_t)below((uint64_t)(hi - lo + 1)); } // [lo,hi]
    bool chance(double p) { return (next() >> 11) * (1.0 / 9007199254740992.0) < p; }
    double unit() { return (next() >> 11) * (1.0 / 9007199254740992.0); }
    template <class T> const T& pick(const std::vector<T>& v) { return v[below(v.size())]; }
    Bytes bytes(size_t n) { Bytes b(n); for (size_t i = 0; i < n; ++i) b[i] = (uint8_t)next(); return b; }
    // small-biased size in [lo,hi]
    int64_t small(int64_t lo, int64_t hi) {
        double u = unit(); u = u * u * u;
        return lo + (int64_t)(u * (double)(hi - lo + 1));
    }
};

// ------------------------------------------------------------------ text helpers
inline std::string hex(const uint8_t* p, size_t n) {
    static const char* d = "0123456789abcdef";
    std::string s; s.resize(n * 2);
    for (size_t i = 0; i < n; ++i) { s[2 * i] = d[p[i] >> 4]; s[2 * i + 1] = d[p[i] & 15]; }
    return s;
}
inline std::string hex(const Bytes& b) { return b.empty() ? std::string("-") : hex(b.data(), b.size()); }
inline Bytes unhex(const std::string& s) {
    Bytes b; if (s == "-") return b;
    auto v = [](char c) { return c <= '9' ? c - '0' : (c | 32) - 'a' + 10; };
    for (size_t i = 0; i + 1 < s.size(); i += 2) b.push_back((uint8_t)(v(s[i]) * 16 + v(s[i + 1])));
    return b;
}
inline std::string fmt(const char* f, ...) {
    char buf[4096]; va_list ap; va_start(ap, f);
    int n = vsnprintf(buf, sizeof buf, f, ap); va_end(ap);
    if (n < (int)sizeof buf) return std::string(buf, n < 0 ? 0 : n);
    std::string s; s.resize(n + 1);
    va_start(ap, f); vsnprintf(&s[0], n + 1, f, ap); va_end(ap); s.resize(n); return s;
}
// "k=v k=v" lines
struct KV {
    std::vector<std::pair<std::string, std::string> > v;
    KV() {}
    explicit KV(const std::string& line) {
        std::istringstream is(line); std::string tok;
        while (is >> tok) {
            size_t e = tok.find('=');
            if (e == std::string::npos) v.push_back(std::make_pair(tok, std::string()));
            else v.push_back(std::make_pair(tok.substr(0, e), tok.substr(e + 1)));
        }
    }
    bool has(const std::string& k) const { for (auto& p : v) if (p.first == k) return true; return false; }
    std::string str(const std::string& k, const std::string& d = "") const { for (auto& p : v) if (p.first == k) return p.second; return d; }
    int64_t num(const std::string& k, int64_t d = 0) const { for (auto& p : v) if (p.first == k) return strtoll(p.second.c_str(), 0, 0); return d; }
    uint64_t u64(const std::string& k, uint64_t d = 0) const { for (auto& p : v) if (p.first == k) return strtoull(p.second.c_str(), 0, 0); return d; }
    Bytes bytes(const std::string& k) const { return unhex(str(k, "-")); }
    KV& set(const std::string& k, const std::string& val) { for (auto& p : v) if (p.first == k) { if (p.second != val && getenv("VERIF_KV_STRICT")) fprintf(stderr, "KV: key '%s' overwritten (%s -> %s)\n", k.c_str(), p.second.substr(0, 40).c_str(), val.substr(0, 40).c_str()); p.second = val; return *this; } v.push_back(std::make_pair(k, val)); return *this; }
    KV& set(const std::string& k, int64_t val) { return set(k, fmt("%lld", (long long)val)); }
    KV& setu(const std::string& k, uint64_t val) { return set(k, fmt("%llu", (unsigned long long)val)); }
    KV& set(const std::string& k, const Bytes& b) { return set(k, hex(b)); }
    std::string line() const { std::string s; for (auto& p : v) { if (!s.empty()) s += ' '; s += p.first; if (!p.second.empty()) { s += '='; s += p.second; } } return s; }
};

inline std::string json_escape(const std::string& s) {
    std::string o;
    for (unsigned char c : s) {
        if (c == '"' || c == '\\') { o += '\\'; o += (char)c; }
        else if (c == '\n') o += "\\n";
        else if (c < 0x20) o += fmt("\\u%04x", c);
        else o += (char)c;
    }
    return o;
}

// ------------------------------------------------------------------ trace (hashed; text kept on demand)
struct Trace {
    uint64_t h; bool keep; std::string text; uint64_t lines;
    Trace() : h(0xcbf29ce484222325ULL), keep(false), lines(0) {}
    void add(const std::string& l) { h = fnv1a(l, h); h = fnv1a("\n", 1, h); ++lines; if (keep) { text += l; text += '\n'; } }
};

// ------------------------------------------------------------------ plan / verdict / stats
struct Plan {
    std::string engine, mode;
    uint64_t seed;
    KV cfg;                              // swarm values actually used + ground truth
    std::vector<std::string> truth;      // ground truth lines (streams, datagrams, keys) - not minimised away
    std::vector<std::string> steps;      // tap inputs / ops, each with its attached faults
    std::string expect_class;            // set by the minimiser
    Plan() : seed(0) {}
    std::string text() const {
        std::string s = "engine " + engine + "\nmode " + mode + "\n" + fmt("seed %llu\n", (unsigned long long)seed);
        s += "cfg " + cfg.line() + "\n";
        for (auto& t : truth) s += "T " + t + "\n";
        for (auto& t : steps) s += "S " + t + "\n";
        if (!expect_class.empty()) s += "expect " + expect_class + "\n";
        return s;
    }
    static bool parse(const std::string& txt, Plan& p) {
        std::istringstream is(txt); std::string l;
        while (std::getline(is, l)) {
            if (l.compare(0, 7, "engine ") == 0) p.engine = l.substr(7);
            else if (l.compare(0, 5, "mode ") == 0) p.mode = l.substr(5);
            else if (l.compare(0, 5, "seed ") == 0) p.seed = strtoull(l.c_str() + 5, 0, 10);
            else if (l.compare(0, 4, "cfg ") == 0) p.cfg = KV(l.substr(4));
            else if (l.compare(0, 2, "T ") == 0) p.truth.push_back(l.substr(2));
            else if (l.compare(0, 2, "S ") == 0) p.steps.push_back(l.substr(2));
            else if (l.compare(0, 7, "expect ") == 0) p.expect_class = l.substr(7);
        }
        return !p.engine.empty();
    }
    static bool load(const std::string& path, Plan& p) {
        FILE* f = fopen(path.c_str(), "rb"); if (!f) return false;
        std::string s; char buf[65536]; size_t n;
        while ((n = fread(buf, 1, sizeof buf, f)) > 0) s.append(buf, n);
        fclose(f); return parse(s, p);
    }
    bool save(const std::string& path) const {
        FILE* f = fopen(path.c_str(), "wb"); if (!f) return false;
        std::string s = text(); fwrite(s.data(), 1, s.size(), f); fclose(f); return true;
    }
};

struct Verdict {
    bool viol; std::string cls, detail; int at_step;
    Verdict() : viol(false), at_step(-1) {}
    static Verdict bad(const std::string& c, const std::string& d, int at = -1) { Verdict v; v.viol = true; v.cls = c; v.detail = d; v.at_step = at; return v; }
};

struct RunStats {
    std::map<std::string, uint64_t> ctr;   // fault counts ("fault.*"), reach probes ("probe.*"), oracle evaluations ("chk.*"), ...
    std::set<uint64_t> states;             // abstract model states reached (engine-defined abstraction)
    uint64_t sched_sig;                    // signature of the schedule (arrival permutation + fault vector)
    uint64_t trace_hash;
    int64_t sim_us;
    bool nontrivial;                       // a fault/reordering fired and an oracle comparison was non-vacuous
    RunStats() : sched_sig(0), trace_hash(0), sim_us(0), nontrivial(false) {}
    void inc(const std::string& k, uint64_t n = 1) { ctr[k] += n; }
};

// ------------------------------------------------------------------ discrete-event queue
struct EventQueue {
    struct Ev { int64_t at; uint64_t seq; std::function<void()> fn; };
    struct Cmp { bool operator()(const Ev& a, const Ev& b) const { return a.at != b.at ? a.at > b.at : a.seq > b.seq; } };
    std::priority_queue<Ev, std::vector<Ev>, Cmp> q;
    int64_t now; uint64_t seq; uint64_t executed;
    EventQueue() : now(0), seq(0), executed(0) {}
    void after(int64_t d, std::function<void()> f) { Ev e; e.at = now + (d < 0 ? 0 : d); e.seq = ++seq; e.fn = std::move(f); q.push(std::move(e)); }
    bool step() {
        if (q.empty()) return false;
        Ev e = q.top(); q.pop(); now = e.at; ++executed; e.fn(); return true;
    }
    void run(int64_t until = INT64_MAX, uint64_t max_events = 10000000) {
        while (!q.empty() && q.top().at <= until && executed < max_events) step();
    }
};

// ------------------------------------------------------------------ engine interface
struct Engine {
    virtual ~Engine() {}
    virtual const char* name() const = 0;
    // pure model code: derive a complete plan from the seed (no libtins behaviour may influence it
    // for passive-tap engines; reactive engines put explicit ops + environment behaviour here)
    virtual Plan generate(uint64_t seed, const std::string& mode, const std::string& tier) = 0;
    // feed the plan to the real code, evaluating the oracle after every step
    virtual Verdict execute(const Plan& p, RunStats& st, Trace& tr) = 0;
    // signature for known-findings matching, computed from the minimised plan (never from seeds/offsets)
    virtual std::string signature(const Plan&, const Verdict& v) { return v.cls; }
    // optional engine-specific simplifications tried after ddmin; return candidate plans
    virtual std::vector<Plan> simplify(const Plan&) { return std::vector<Plan>(); }
    virtual std::string describe_sample(const Plan& p) { // short, human-readable
        std::string s = "mode=" + p.mode + " " + p.cfg.line() + " steps=" + fmt("%zu", p.steps.size());
        if (!p.steps.empty()) s += " first: " + p.steps[0].substr(0, 160);
        return s;
    }
    // what ran real code and what was a stub (for evidence)
    virtual std::string components_json() const = 0;
    virtual std::string rule_text(const std::string& mode) const = 0;
};

// ------------------------------------------------------------------ child execution with classification
struct ChildResult { std::string cls; std::string detail; uint64_t trace_hash; int at_step; bool crashed; };

inline std::string demangle(const char* n) {
    int st = 0; char* d = abi::__cxa_demangle(n, 0, 0, &st);
    std::string s = (st == 0 && d) ? d : n; free(d); return s;
}

inline Verdict guarded_execute(Engine& e, const Plan& p, RunStats& st, Trace& tr) {
    try { return e.execute(p, st, tr); }
    catch (std::exception& ex) { return Verdict::bad(std::string("escaped-exception:") + demangle(typeid(ex).name()), ex.what()); }
    catch (...) { return Verdict::bad("escaped-exception:unknown", ""); }
}

// Parse a sanitizer report into "<tool>:<kind>:<first frame inside Tins or engine>"
inline std::string classify_sanitizer(const std::string& err) {
    std::string tool = "sanitizer", kind = "unknown", frame = "?";
    size_t p = err.find("ERROR: AddressSanitizer: ");
    if (p != std::string::npos) {
        tool = "asan"; size_t s = p + 25, e = err.find_first_of(" \n", s); kind = err.substr(s, e - s);
    } else if ((p = err.find("runtime error: ")) != std::string::npos) {
        tool = "ubsan"; size_t s = p + 15, e = err.find('\n', s); kind = err.substr(s, std::min<size_t>(e - s, 60));
        // normalise numbers/addresses out of the kind
        std::string k2; for (char c : kind) { if ((c >= '0' && c <= '9')) { if (k2.empty() || k2[k2.size() - 1] != '#') k2 += '#'; } else if (c == ' ') k2 += '_'; else k2 += c; }
        kind = k2;
        // file:line of the report
        size_t ls = err.rfind('\n', p); ls = ls == std::string::npos ? 0 : ls + 1;
        std::string loc = err.substr(ls, p - ls); size_t sl = loc.rfind('/'); if (sl != std::string::npos) loc = loc.substr(sl + 1);
        size_t c1 = loc.find(':'); if (c1 != std::string::npos) { size_t c2 = loc.find(':', c1 + 1); if (c2 != std::string::npos) loc = loc.substr(0, c2); }
        frame = loc;
    }
    if (tool == "asan") {
        size_t q = p;
        for (int i = 0; i < 40; ++i) {
            size_t in = err.find(" in ", q); if (in == std::string::npos) break;
            size_t e = err.find_first_of("\n", in); std::string fn = err.substr(in + 4, e - in - 4);
            q = e;
            size_t tp = fn.find("Tins::");
            if (tp != std::string::npos) {
                // the qualified function name around "Tins::": back to the previous space, forward to '(' or ' '
                size_t b0 = fn.rfind(' ', tp); b0 = b0 == std::string::npos ? 0 : b0 + 1; size_t e0 = fn.find_first_of("( ", tp); if (e0 == std::string::npos) e0 = fn.size();
                frame = fn.substr(b0, e0 - b0); break;
            }
        }
    }
    return tool + ":" + kind + ":" + frame;
}

inline ChildResult run_in_child(Engine& e, const Plan& p, int timeout_s = 60) {
    ChildResult r; r.trace_hash = 0; r.at_step = -1; r.crashed = false;
    int out[2], err[2];
    if (pipe(out) || pipe(err)) { r.cls = "machinery:pipe"; return r; }
    fflush(stdout); fflush(stderr);
    pid_t pid = fork();
    if (pid == 0) {
        close(out[0]); close(err[0]); dup2(err[1], 2); close(err[1]);
        { sigset_t ss; sigemptyset(&ss); sigaddset(&ss, SIGALRM); sigprocmask(SIG_UNBLOCK, &ss, 0); signal(SIGALRM, SIG_DFL); }   // the watchdog must work whatever the caller's signal state is
        alarm(timeout_s);
        RunStats st; Trace tr;
        Verdict v = guarded_execute(e, p, st, tr);
        std::string line = fmt("%d\t%s\t%llu\t%d\t", v.viol ? 1 : 0, v.cls.c_str(), (unsigned long long)tr.h, v.at_step) + v.detail.substr(0, 2000);
        for (char& c : line) if (c == '\n') c = ' ';
        line += "\n";
        ssize_t w = write(out[1], line.data(), line.size()); (void)w;
        flush_coverage(); _exit(0);
    }
    close(out[1]); close(err[1]);
    std::string so, se; char buf[8192];
    // read both pipes until EOF (stderr may be large)
    fcntl(out[0], F_SETFL, O_NONBLOCK); fcntl(err[0], F_SETFL, O_NONBLOCK);
    bool o_open = true, e_open = true;
    while (o_open || e_open) {
        fd_set fs; FD_ZERO(&fs); int mx = 0;
        if (o_open) { FD_SET(out[0], &fs); mx = std::max(mx, out[0]); }
        if (e_open) { FD_SET(err[0], &fs); mx = std::max(mx, err[0]); }
        if (syscall(SYS_select, mx + 1, &fs, 0, 0, 0) < 0) { if (errno == EINTR) continue; break; }
        if (o_open && FD_ISSET(out[0], &fs)) { ssize_t n = syscall(SYS_read, out[0], buf, sizeof buf); if (n > 0) so.append(buf, n); else if (n == 0 || (errno != EAGAIN && errno != EINTR)) o_open = false; }
        if (e_open && FD_ISSET(err[0], &fs)) { ssize_t n = syscall(SYS_read, err[0], buf, sizeof buf); if (n > 0) { if (se.size() < (1 << 20)) se.append(buf, n); } else if (n == 0 || (errno != EAGAIN && errno != EINTR)) e_open = false; }
    }
    close(out[0]); close(err[0]);
    int status = 0; while (waitpid(pid, &status, 0) < 0 && errno == EINTR) {}
    if (WIFEXITED(status) && WEXITSTATUS(status) == 0 && !so.empty()) {
        // viol \t cls \t hash \t at \t detail
        std::vector<std::string> f; size_t a = 0;
        for (int i = 0; i < 4; ++i) { size_t b = so.find('\t', a); f.push_back(so.substr(a, b - a)); a = b + 1; }
        std::string detail = so.substr(a); if (!detail.empty() && detail[detail.size() - 1] == '\n') detail.resize(detail.size() - 1);
        r.cls = f[0] == "1" ? f[1] : ""; r.trace_hash = strtoull(f[2].c_str(), 0, 10); r.at_step = atoi(f[3].c_str()); r.detail = detail;
        return r;
    }
    r.crashed = true;
    if (WIFSIGNALED(status) && WTERMSIG(status) == SIGALRM) { r.cls = "hang:wallclock"; r.detail = "run exceeded wall-clock watchdog"; return r; }
    if (WIFSIGNALED(status) && WTERMSIG(status) == SIGXCPU) { r.cls = "hang:step-limit"; r.detail = "run exceeded the engine's hard cap of simulated steps (a library call that does not return)"; return r; }
    if (se.find("Sanitizer") != std::string::npos || se.find("runtime error:") != std::string::npos) {
        r.cls = classify_sanitizer(se);
        size_t p0 = se.find("ERROR:"); if (p0 == std::string::npos) p0 = se.find("runtime error:");
        r.detail = se.substr(p0 == std::string::npos ? 0 : p0, 600);
        for (char& c : r.detail) if (c == '\n') c = ' ';
        return r;
    }
    if (se.find("terminate called") != std::string::npos) { r.cls = "terminate"; r.detail = se.substr(0, 300); for (char& c : r.detail) if (c == '\n') c = ' '; return r; }
    if (WIFSIGNALED(status)) r.cls = fmt("signal:%d", WTERMSIG(status)); else r.cls = fmt("exit:%d", WEXITSTATUS(status));
    r.detail = se.substr(0, 300); for (char& c : r.detail) if (c == '\n') c = ' ';
    return r;
}

// ------------------------------------------------------------------ ddmin over plan steps (+ engine simplifications)
struct MinimiseInfo { int attempts; size_t from, to; };
inline Plan minimise(Engine& e, const Plan& start, const std::string& cls, MinimiseInfo& info, double budget_s = 120) {
    double t0 = wall_now();
    Plan cur = start; info.attempts = 0; info.from = start.steps.size();
    auto still = [&](const Plan& cand) { ++info.attempts; ChildResult r = run_in_child(e, cand, 30); return r.cls == cls; };
    size_t n = 2;
    while (cur.steps.size() >= 2 && wall_now() - t0 < budget_s) {
        size_t len = cur.steps.size(); if (n > len) n = len;
        size_t chunk = (len + n - 1) / n; bool reduced = false;
        for (size_t i = 0; i < n && !reduced; ++i) {           // try complements (remove chunk i)
            size_t a = i * chunk, b = std::min(len, a + chunk); if (a >= b) continue;
            Plan cand = cur; cand.steps.erase(cand.steps.begin() + a, cand.steps.begin() + b);
            if (still(cand)) { cur = cand; n = std::max<size_t>(n - 1, 2); reduced = true; }
            if (wall_now() - t0 > budget_s) break;
        }
        if (!reduced) { if (n >= len) break; n = std::min(len, n * 2); }
    }
    if (cur.steps.size() == 1) { /* keep */ }
    // engine-specific simplifications, greedy to fixpoint
    bool progress = true; int rounds = 0;
    while (progress && rounds++ < 8 && wall_now() - t0 < budget_s) {
        progress = false;
        std::vector<Plan> cands = e.simplify(cur);
        for (auto& c : cands) { if (wall_now() - t0 > budget_s) break; if (still(c)) { cur = c; progress = true; break; } }
    }
    info.to = cur.steps.size();
    cur.expect_class = cls;
    return cur;
}

// ------------------------------------------------------------------ batch runner
struct BatchOptions {
    std::string mode, tier, outdir, property, hash_out;
    uint64_t seed; uint64_t runs; int jobs; double budget_s; int max_viol; uint64_t recheck_every;
    BatchOptions() : seed(1), runs(1000), jobs(16), budget_s(60), max_viol(4), recheck_every(97) {}
};

struct Violation { uint64_t seed; std::string cls, detail, signature, replay; size_t steps_before, steps_after; int attempts; bool gated; };

inline void write_all(int fd, const std::string& s) { size_t o = 0; while (o < s.size()) { ssize_t n = write(fd, s.data() + o, s.size() - o); if (n <= 0) { if (errno == EINTR) continue; break; } o += n; } }

inline int run_batch(Engine& e, const BatchOptions& o) {
    double t0 = wall_now();
    int J = o.jobs < 1 ? 1 : o.jobs;
    // shared progress slots: index of the run each worker is executing
    volatile int64_t* slot = (volatile int64_t*)mmap(0, sizeof(int64_t) * J, PROT_READ | PROT_WRITE, MAP_SHARED | MAP_ANONYMOUS, -1, 0);
    std::vector<int> fds(J, -1); std::vector<pid_t> pids(J, 0); std::vector<int64_t> next_idx(J);
    std::vector<std::string> buf(J);
    for (int w = 0; w < J; ++w) { slot[w] = -1; next_idx[w] = w; }
    // aggregated results
    std::map<std::string, uint64_t> ctr; std::set<uint64_t> scheds, scheds_nontrivial, states;
    uint64_t runs_done = 0, nontrivial_runs = 0; int64_t sim_us = 0;
    uint64_t recheck_runs = 0, recheck_mismatch = 0;
    std::vector<std::pair<uint64_t, std::string> > viols;     // (seed, class) raw
    std::vector<int64_t> crashed_idx;
    std::vector<std::string> samples; std::map<int64_t, uint64_t> run_hashes;
    auto spawn = [&](int w) {
        int p[2]; if (pipe(p)) return;
        fflush(stdout); fflush(stderr);
        pid_t pid = fork();
        if (pid == 0) {
            close(p[0]);
            for (int k = 0; k < J; ++k) if (fds[k] >= 0) close(fds[k]);
            int devnull = open("/dev/null", O_WRONLY); if (devnull >= 0) { dup2(devnull, 2); }
            { sigset_t ss; sigemptyset(&ss); sigaddset(&ss, SIGALRM); sigprocmask(SIG_UNBLOCK, &ss, 0); signal(SIGALRM, SIG_DFL); }
            int nviol = 0;
            for (int64_t i = next_idx[w]; i < (int64_t)o.runs; i += J) {
                if (wall_now() - t0 > o.budget_s) break;
                slot[w] = i;
                uint64_t seed = mix64(o.seed, (uint64_t)i);
                Plan p0 = e.generate(seed, o.mode, o.tier);
                RunStats st; Trace tr; alarm(120);
                Verdict v = guarded_execute(e, p0, st, tr);
                alarm(0);
                st.trace_hash = tr.h;
                std::string line = fmt("R i=%lld seed=%llu h=%llu viol=%d sched=%llu nt=%d sim=%lld", (long long)i, (unsigned long long)seed,
                                       (unsigned long long)tr.h, v.viol ? 1 : 0, (unsigned long long)st.sched_sig, st.nontrivial ? 1 : 0, (long long)st.sim_us);
                if (v.viol) { std::string c = v.cls; for (char& ch : c) if (ch == ' ') ch = '_'; line += " cls=" + c; }
                line += " ctr=";
                bool first = true; for (auto& kv : st.ctr) { if (!first) line += ','; first = false; line += kv.first + ":" + fmt("%llu", (unsigned long long)kv.second); }
                line += " st="; int ns = 0; for (uint64_t s : st.states) { if (ns++) line += ','; if (ns > 256) break; line += fmt("%llx", (unsigned long long)s); }
                // periodic determinism recheck: same plan executed again must give the same trace hash
                if (o.recheck_every && (i % o.recheck_every) == 0) {
                    RunStats st2; Trace tr2; Plan p1 = e.generate(seed, o.mode, o.tier);
                    guarded_execute(e, p1, st2, tr2);
                    line += fmt(" re=%d", tr2.h == tr.h && p1.text() == p0.text() ? 1 : 0);
                }
                if (i < 3 * J && i % J == 0 && i / J < 3) { std::string d = e.describe_sample(p0); for (char& ch : d) if (ch == '\n') ch = ' '; line += "\nS " + d; }
                line += "\n";
                write_all(p[1], line);
                if (v.viol && ++nviol >= 64) break;
            }
            slot[w] = -2;
            write_all(p[1], "D\n");
            flush_coverage(); _exit(0);
        }
        close(p[1]); fds[w] = p[0]; pids[w] = pid;
    };
    for (int w = 0; w < J; ++w) spawn(w);
    int open_n = J;
    auto handle_line = [&](int w, const std::string& l) {
        if (l.compare(0, 2, "S ") == 0) { if (samples.size() < 6) samples.push_back(l.substr(2)); return; }
        if (l.compare(0, 2, "R ") != 0) return;
        KV kv(l.substr(2));
        ++runs_done; int64_t i = kv.num("i"); next_idx[w] = i + J; if (!o.hash_out.empty()) run_hashes[i] = kv.u64("h");
        uint64_t sg = kv.u64("sched"); scheds.insert(sg);
        if (kv.num("nt")) { ++nontrivial_runs; scheds_nontrivial.insert(sg); }
        sim_us += kv.num("sim");
        if (kv.num("viol")) viols.push_back(std::make_pair(kv.u64("seed"), kv.str("cls")));
        if (kv.has("re")) { ++recheck_runs; if (!kv.num("re")) ++recheck_mismatch; }
        std::string c = kv.str("ctr"); size_t a = 0;
        while (a < c.size()) { size_t b = c.find(',', a); if (b == std::string::npos) b = c.size(); std::string it = c.substr(a, b - a); size_t col = it.rfind(':'); if (col != std::string::npos) ctr[it.substr(0, col)] += strtoull(it.c_str() + col + 1, 0, 10); a = b + 1; }
        std::string s = kv.str("st"); a = 0;
        while (a < s.size()) { size_t b = s.find(',', a); if (b == std::string::npos) b = s.size(); states.insert(strtoull(s.substr(a, b - a).c_str(), 0, 16)); a = b + 1; }
    };
    int respawns = 0;
    while (open_n > 0) {
        fd_set fs; FD_ZERO(&fs); int mx = -1;
        for (int w = 0; w < J; ++w) if (fds[w] >= 0) { FD_SET(fds[w], &fs); mx = std::max(mx, fds[w]); }
        if (mx < 0) break;
        if (syscall(SYS_select, mx + 1, &fs, 0, 0, 0) < 0) { if (errno == EINTR) continue; break; }
        for (int w = 0; w < J; ++w) {
            if (fds[w] < 0 || !FD_ISSET(fds[w], &fs)) continue;
            char b[65536]; ssize_t n = syscall(SYS_read, fds[w], b, sizeof b);
            if (n > 0) {
                buf[w].append(b, n); size_t nl;
                while ((nl = buf[w].find('\n')) != std::string::npos) { handle_line(w, buf[w].substr(0, nl)); buf[w].erase(0, nl + 1); }
            } else if (n == 0) {
                close(fds[w]); fds[w] = -1; int status; waitpid(pids[w], &status, 0);
                int64_t at = slot[w];
                if (at >= 0) {   // died inside run `at`
                    crashed_idx.push_back(at); next_idx[w] = at + J; slot[w] = -1; buf[w].clear();
                    if ((int)crashed_idx.size() < o.max_viol * 2 && respawns++ < 64 && wall_now() - t0 < o.budget_s) { spawn(w); continue; }
                }
                --open_n;
            }
        }
    }
    double t_search = wall_now() - t0;
    if (!o.hash_out.empty()) { FILE* hf = fopen(o.hash_out.c_str(), "wb"); if (hf) { for (auto& kv : run_hashes) fprintf(hf, "%lld %llu\n", (long long)kv.first, (unsigned long long)kv.second); fclose(hf); } }
    int early_machinery_fault = 0;
    // ---- classify crashes (re-run the seed in a child, stderr captured)
    for (int64_t i : crashed_idx) {
        uint64_t seed = mix64(o.seed, (uint64_t)i);
        Plan p = e.generate(seed, o.mode, o.tier);
        ChildResult r = run_in_child(e, p, 120);
        if (r.cls.empty()) { fprintf(stderr, "MACHINERY: worker died on seed %llu but re-run is clean (non-deterministic crash)\n", (unsigned long long)seed); early_machinery_fault = 1; continue; }
        viols.push_back(std::make_pair(seed, r.cls));
    }
    // ---- one representative per class; determinism gate, minimise, replay gate
    std::vector<Violation> out; std::set<std::string> seen_sig; std::map<std::string, int> per_class;
    int machinery_fault = early_machinery_fault;
    std::sort(viols.begin(), viols.end());
    for (auto& sv : viols) {
        if (per_class[sv.second]++ >= 3) continue;            // up to 3 seeds per raw class (different signatures may hide behind one class)
        Plan p = e.generate(sv.first, o.mode, o.tier);
        ChildResult a = run_in_child(e, p, 120), b = run_in_child(e, p, 120);
        if (a.cls.empty() || a.cls != b.cls || (!a.crashed && a.trace_hash != b.trace_hash)) {
            fprintf(stderr, "MACHINERY: seed %llu not deterministic (%s/%llu vs %s/%llu)\n", (unsigned long long)sv.first, a.cls.c_str(), (unsigned long long)a.trace_hash, b.cls.c_str(), (unsigned long long)b.trace_hash);
            machinery_fault = 1; continue;
        }
        double mb = o.tier == "thorough" ? 240 : 90; if (per_class[sv.second] > 1) mb /= 6;      // later seeds of a class only look for another signature
        MinimiseInfo mi; Plan m = minimise(e, p, a.cls, mi, mb);
        ChildResult fin = run_in_child(e, m, 120);
        Verdict fv; fv.viol = true; fv.cls = fin.cls; fv.detail = fin.detail; fv.at_step = fin.at_step;
        Violation v; v.seed = sv.first; v.cls = a.cls; v.detail = fin.detail; v.signature = e.signature(m, fv);
        v.steps_before = mi.from; v.steps_after = mi.to; v.attempts = mi.attempts; v.gated = false;
        if (seen_sig.count(v.signature)) continue;
        seen_sig.insert(v.signature);
        mkdir(o.outdir.c_str(), 0777);
        v.replay = o.outdir + "/" + o.property + "-" + fmt("%llu", (unsigned long long)sv.first) + ".plan";
        m.save(v.replay);
        // fresh-process replay gate
        std::string self = "/proc/self/exe"; char exe[4096]; ssize_t n = readlink(self.c_str(), exe, sizeof exe - 1); exe[n > 0 ? n : 0] = 0;
        std::string cmd = std::string(exe) + " --replay " + v.replay + " >/dev/null 2>&1";
        int rc = system(cmd.c_str());
        if (WIFEXITED(rc) && WEXITSTATUS(rc) == 1) v.gated = true;
        else { fprintf(stderr, "MACHINERY: replay of %s did not reproduce (rc=%d)\n", v.replay.c_str(), rc); machinery_fault = 1; continue; }
        out.push_back(v);
    }
    if (recheck_mismatch) { fprintf(stderr, "MACHINERY: determinism recheck failed on %llu of %llu runs\n", (unsigned long long)recheck_mismatch, (unsigned long long)recheck_runs); machinery_fault = 1; }
    double wall = wall_now() - t0;
    // ---- result json (consumed by bin/check)
    std::string js = "{\n";
    js += fmt("\"engine\":\"%s\",\"mode\":\"%s\",\"tier\":\"%s\",\"seed\":%llu,\n", e.name(), o.mode.c_str(), o.tier.c_str(), (unsigned long long)o.seed);
    js += fmt("\"runs\":%llu,\"runs_requested\":%llu,\"wall_s\":%.3f,\"search_wall_s\":%.3f,\"seeds_per_hour\":%.0f,\"sim_seconds\":%.3f,\n",
              (unsigned long long)runs_done, (unsigned long long)o.runs, wall, t_search, t_search > 0 ? runs_done * 3600.0 / t_search : 0.0, sim_us / 1e6);
    js += fmt("\"distinct_schedules\":%zu,\"distinct_nontrivial\":%zu,\"nontrivial_runs\":%llu,\"distinct_abstract_states\":%zu,\n",
              scheds.size(), scheds_nontrivial.size(), (unsigned long long)nontrivial_runs, states.size());
    js += fmt("\"determinism_recheck\":{\"runs\":%llu,\"mismatches\":%llu},\"worker_crashes\":%zu,\"machinery_fault\":%d,\n",
              (unsigned long long)recheck_runs, (unsigned long long)recheck_mismatch, crashed_idx.size(), machinery_fault);
    js += "\"counters\":{"; { bool f = true; for (auto& kv : ctr) { if (!f) js += ","; f = false; js += "\"" + json_escape(kv.first) + "\":" + fmt("%llu", (unsigned long long)kv.second); } } js += "},\n";
    js += "\"samples\":["; { bool f = true; for (auto& s : samples) { if (!f) js += ","; f = false; js += "\"" + json_escape(s) + "\""; } } js += "],\n";
    js += "\"components\":" + e.components_json() + ",\n";
    js += "\"rule\":\"" + json_escape(e.rule_text(o.mode)) + "\",\n";
    js += "\"violations\":[";
    { bool f = true; for (auto& v : out) { if (!f) js += ","; f = false;
        js += fmt("{\"seed\":%llu,\"class\":\"%s\",\"signature\":\"%s\",\"replay\":\"%s\",\"detail\":\"%s\",\"steps_before\":%zu,\"steps_after\":%zu,\"attempts\":%d}",
                  (unsigned long long)v.seed, json_escape(v.cls).c_str(), json_escape(v.signature).c_str(), json_escape(v.replay).c_str(), json_escape(v.detail).c_str(), v.steps_before, v.steps_after, v.attempts); } }
    js += "]\n}\n";
    std::string rp = o.outdir + "/result-" + o.property + ".json";
    mkdir(o.outdir.c_str(), 0777);
    FILE* f = fopen(rp.c_str(), "wb"); if (f) { fwrite(js.data(), 1, js.size(), f); fclose(f); }
    fputs(js.c_str(), stdout);
    return machinery_fault ? 2 : (out.empty() ? 0 : 1);
}

// ------------------------------------------------------------------ main() shared by engines
//   <engine> --mode M --property Cxx --seed S --runs N --jobs J --budget-s T --tier quick|thorough --outdir D
//   <engine> --replay file [--verbose]      exit 1 iff the plan's violation class is observed, 0 if nothing, 2 otherwise
//   <engine> --gen --mode M --seed S        print the plan for one seed
inline int engine_main(Engine& e, int argc, char** argv) {
    BatchOptions o; std::string replay, exec_plan; bool verbose = false, gen = false, one = false;
    o.outdir = "/verif/replays"; o.tier = "quick"; o.property = "CXX";
    if (getenv("VERIF_SEED")) o.seed = strtoull(getenv("VERIF_SEED"), 0, 0);
    for (int i = 1; i < argc; ++i) {
        std::string a = argv[i]; auto nx = [&]() { return std::string(i + 1 < argc ? argv[++i] : ""); };
        if (a == "--mode") o.mode = nx(); else if (a == "--seed") o.seed = strtoull(nx().c_str(), 0, 0);
        else if (a == "--runs") o.runs = strtoull(nx().c_str(), 0, 0); else if (a == "--jobs") o.jobs = atoi(nx().c_str());
        else if (a == "--budget-s") o.budget_s = atof(nx().c_str()); else if (a == "--tier") o.tier = nx();
        else if (a == "--outdir") o.outdir = nx(); else if (a == "--property") o.property = nx();
        else if (a == "--replay") replay = nx(); else if (a == "--verbose") verbose = true; else if (a == "--gen") gen = true;
        else if (a == "--hash-out") o.hash_out = nx(); else if (a == "--exec-plan") exec_plan = nx(); else if (a == "--one") one = true; else if (a == "--max-viol") o.max_viol = atoi(nx().c_str());
        else { fprintf(stderr, "unknown argument %s\n", a.c_str()); return 2; }
    }
    if (!exec_plan.empty()) {   // execute a plan in this very process (for valgrind): exit 1 iff the oracle reports a violation
        Plan p; if (!Plan::load(exec_plan, p)) { fprintf(stderr, "cannot load plan %s\n", exec_plan.c_str()); return 2; }
        RunStats st; Trace tr; Verdict v = guarded_execute(e, p, st, tr); printf("exec-plan: viol=%d class=%s detail=%s\n", v.viol, v.cls.c_str(), v.detail.c_str()); return v.viol ? 1 : 0; }
    if (gen) { Plan p = e.generate(o.seed, o.mode, o.tier); fputs(p.text().c_str(), stdout); return 0; }
    if (one) {   // run one raw seed in-process with trace
        Plan p = e.generate(o.seed, o.mode, o.tier); RunStats st; Trace tr; tr.keep = verbose;
        Verdict v = guarded_execute(e, p, st, tr);
        if (verbose) fputs(tr.text.c_str(), stdout);
        printf("seed=%llu hash=%llu viol=%d class=%s detail=%s\n", (unsigned long long)o.seed, (unsigned long long)tr.h, v.viol, v.cls.c_str(), v.detail.c_str());
        for (auto& kv : st.ctr) printf("  %s=%llu\n", kv.first.c_str(), (unsigned long long)kv.second);
        return v.viol ? 1 : 0;
    }
    if (!replay.empty()) {
        Plan p; if (!Plan::load(replay, p)) { fprintf(stderr, "cannot load plan %s\n", replay.c_str()); return 2; }
        if (verbose) { RunStats st; Trace tr; tr.keep = true; ChildResult dummy; (void)dummy;
            pid_t pid = fork(); if (pid == 0) { Verdict v = guarded_execute(e, p, st, tr); fputs(tr.text.c_str(), stdout); printf("verdict: viol=%d class=%s at=%d detail=%s\n", v.viol, v.cls.c_str(), v.at_step, v.detail.c_str()); fflush(stdout); _exit(0); }
            int s; waitpid(pid, &s, 0); }
        ChildResult r = run_in_child(e, p, 300);
        std::string prop = p.cfg.str("property", o.property);
        if (r.cls.empty()) { printf("replay: no violation observed\n"); return 0; }
        if (p.expect_class.empty() || r.cls == p.expect_class) {
            printf("replay: class=%s at_step=%d detail=%s\n", r.cls.c_str(), r.at_step, r.detail.c_str());
            printf("VIOLATION property=%s replay=%s\n", prop.c_str(), replay.c_str());
            return 1;
        }
        printf("replay: observed class %s but plan expects %s\n", r.cls.c_str(), p.expect_class.c_str());
        return 2;
    }
    return run_batch(e, o);
}

} // namespace sim
