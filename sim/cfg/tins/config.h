#ifndef TINS_CONFIG_H
#define TINS_CONFIG_H

/* Define if the compiler supports basic C++11 syntax */
#define TINS_HAVE_CXX11

/* Have IEEE 802.11 support */
#define TINS_HAVE_DOT11

/* Have WPA2 decryption library */
#define TINS_HAVE_WPA2_DECRYPTION

/* Use pcap_sendpacket to send l2 packets */
/* #undef TINS_HAVE_PACKET_SENDER_PCAP_SENDPACKET */

/* Have TCPIP classes */
#define TINS_HAVE_TCPIP

/* Have TCP ACK tracking */
#define TINS_HAVE_ACK_TRACKER

/* Have TCP stream custom data */
#define TINS_HAVE_TCP_STREAM_CUSTOM_DATA

/* Have GCC builtin swap */
#define TINS_HAVE_GCC_BUILTIN_SWAP

/* Have WPA2Decrypter callbacks */
#define TINS_HAVE_WPA2_CALLBACKS

/* Have libpcap */
#define TINS_HAVE_PCAP

/* Version macros */
#define TINS_VERSION_MAJOR 4
#define TINS_VERSION_MINOR 6
#define TINS_VERSION_PATCH 0

#endif // TINS_CONFIG_H
