// Simulated disk (shared by the disk and wire engines): fopen() is defined here, i.e. in the harness executable, so
// libpcap's fopen calls bind to it; paths under /simdisk/ are served by fopencookie streams over an in-memory disk with
// crash / torn write / ENOSPC / EIO / short read faults. Also the reference savefile writer/reader.
#pragma once
#include "kernel.hpp"
#include <dlfcn.h>
using sim::Bytes; using sim::Rng;

// ============================================================================ simulated disk
namespace simdisk {
struct File {
    Bytes data;                       // what has become durable
    bool crashed; int64_t wfail_at; int wfail_errno; bool wfail_recover; int wfail_calls_left;
    int64_t reio_at; int short_max; uint64_t short_seed; uint64_t write_calls, read_calls; uint64_t torn;
    File() : crashed(false), wfail_at(-1), wfail_errno(ENOSPC), wfail_recover(false), wfail_calls_left(0), reio_at(-1), short_max(0), short_seed(1), write_calls(0), read_calls(0), torn(0) {}
};
struct Cookie { File* f; size_t pos; Rng rng; Bytes view; bool reading; };
static std::map<std::string, File> files; static int bufsz = -1; static std::map<std::string, uint64_t> fired;
static ssize_t ck_read(void* c, char* buf, size_t n) {
    Cookie* k = (Cookie*)c; File* f = k->f; ++f->read_calls;
    if (k->pos >= k->view.size()) return 0;
    if (f->reio_at >= 0 && (int64_t)k->pos >= f->reio_at) { errno = EIO; fired["fault.read_eio"]++; return -1; }
    size_t m = std::min(n, k->view.size() - k->pos);
    if (f->reio_at >= 0 && (int64_t)(k->pos + m) > f->reio_at) m = (size_t)(f->reio_at - (int64_t)k->pos);
    if (f->short_max > 0 && m > 1) { size_t lim = 1 + (size_t)k->rng.below((uint64_t)f->short_max); if (lim < m) { m = lim; fired["fault.short_read"]++; } }
    memcpy(buf, k->view.data() + k->pos, m); k->pos += m; return (ssize_t)m;
}
static ssize_t ck_write(void* c, const char* buf, size_t n) {
    Cookie* k = (Cookie*)c; File* f = k->f; ++f->write_calls;
    if (f->crashed) return (ssize_t)n;                 // the process is gone: nothing more reaches the disk
    if (f->wfail_at >= 0 && (int64_t)(f->data.size() + n) > f->wfail_at) {
        size_t room = (int64_t)f->data.size() < f->wfail_at ? (size_t)(f->wfail_at - (int64_t)f->data.size()) : 0;
        if (f->wfail_recover && f->wfail_calls_left-- <= 0) { f->wfail_at = -1; }       // space was freed: later writes succeed again
        else { f->data.insert(f->data.end(), buf, buf + room); if (room) f->torn++; errno = f->wfail_errno; fired["fault.write_error"]++; return (ssize_t)room; }
    }
    f->data.insert(f->data.end(), buf, buf + n); return (ssize_t)n;
}
static int ck_seek(void*, off64_t*, int) { errno = ESPIPE; return -1; }
static int ck_close(void* c) { delete (Cookie*)c; return 0; }
static FILE* open(const std::string& path, const char* mode, const Bytes* view_override = 0) {
    bool wr = strchr(mode, 'w') != 0; File& f = files[path]; if (wr) { f.data.clear(); }
    Cookie* k = new Cookie(); k->f = &f; k->pos = 0; k->rng.reseed(f.short_seed); k->reading = !wr; if (!wr) k->view = view_override ? *view_override : f.data;
    cookie_io_functions_t io = { ck_read, ck_write, ck_seek, ck_close };
    FILE* fp = fopencookie(k, wr ? "w" : "r", io);
    if (fp && bufsz >= 0) { if (bufsz == 0) setvbuf(fp, 0, _IONBF, 0); else setvbuf(fp, 0, _IOFBF, (size_t)bufsz); }
    return fp;
}
static const Bytes* read_view = 0;     // bytes served for the next read-open by name (after read-side faults)
}

extern "C" {
typedef FILE* (*fopen_t)(const char*, const char*);
FILE* fopen(const char* path, const char* mode) {
    if (path && strncmp(path, "/simdisk/", 9) == 0) return simdisk::open(path, mode, simdisk::read_view);
    static fopen_t real = (fopen_t)dlsym(RTLD_NEXT, "fopen"); return real(path, mode);
}
FILE* fopen64(const char* path, const char* mode) {
    if (path && strncmp(path, "/simdisk/", 9) == 0) return simdisk::open(path, mode, simdisk::read_view);
    static fopen_t real = (fopen_t)dlsym(RTLD_NEXT, "fopen64"); return real(path, mode);
}
}

// ============================================================================ reference savefile format
struct Rec { uint32_t sec, usec, caplen, len; Bytes data; size_t hdr_off; };
static Bytes ref_global_header(uint32_t linktype) {
    Bytes b; auto le32 = [&](uint32_t v) { b.push_back(v & 0xff); b.push_back((v >> 8) & 0xff); b.push_back((v >> 16) & 0xff); b.push_back(v >> 24); };
    auto le16 = [&](uint16_t v) { b.push_back(v & 0xff); b.push_back(v >> 8); };
    le32(0xa1b2c3d4); le16(2); le16(4); le32(0); le32(0); le32(65535); le32(linktype); return b;
}
static void ref_append(Bytes& b, uint32_t sec, uint32_t usec, uint32_t len, const Bytes& data) {
    auto le32 = [&](uint32_t v) { b.push_back(v & 0xff); b.push_back((v >> 8) & 0xff); b.push_back((v >> 16) & 0xff); b.push_back(v >> 24); };
    le32(sec); le32(usec); le32((uint32_t)data.size()); le32(len); b.insert(b.end(), data.begin(), data.end());
}
static uint32_t rd32(const Bytes& b, size_t o) { return (uint32_t)b[o] | (uint32_t)b[o + 1] << 8 | (uint32_t)b[o + 2] << 16 | (uint32_t)b[o + 3] << 24; }
// reads the well-formed format; a record that is not wholly present ends the file
static bool ref_read(const Bytes& b, std::vector<Rec>& out, uint32_t* linktype) {
    out.clear(); if (b.size() < 24 || rd32(b, 0) != 0xa1b2c3d4) return false;
    if (linktype) *linktype = rd32(b, 20);
    size_t o = 24;
    while (o + 16 <= b.size()) { Rec r; r.sec = rd32(b, o); r.usec = rd32(b, o + 4); r.caplen = rd32(b, o + 8); r.len = rd32(b, o + 12); r.hdr_off = o; if (r.caplen > 262144 || o + 16 + r.caplen > b.size()) break; r.data.assign(b.begin() + o + 16, b.begin() + o + 16 + r.caplen); out.push_back(r); o += 16 + r.caplen; }
    return true;
}

