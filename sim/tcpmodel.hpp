// Reference TCP endpoints + lossy network + passive tap (pure model code, no libtins).
// Produces the ordered list of frames a monitor port sees; that list is the plan of the tcp engine.
#pragma once
#include "kernel.hpp"
#include "codec.hpp"

namespace tcpm {
using namespace sim; using namespace codec;

struct ConnSpec {
    int id; Addr addr[2]; uint16_t port[2];   // [0]=client, [1]=server
    uint32_t isn[2]; Bytes data[2]; int mss[2]; int wnd[2];
    bool sack, handshake, tsopt, ecn; int sack_asym;   // sack_asym: 0 both sides offer SACK-permitted, 1 only the client does (so only the server may send blocks), 2 only the server does
    int close;          // 0 none (stays open), 1 FIN both, 2 RST by client, 3 RST by server, 4 FIN by client then RST by server, 5 FIN by client only (half close then silence)
    bool fin_with_data; int64_t start_us; int64_t rst_after_us;
    ConnSpec() : id(0), sack(true), handshake(true), tsopt(false), ecn(false), sack_asym(0), close(1), fin_with_data(false), start_us(0), rst_after_us(0) { port[0] = port[1] = 0; isn[0] = isn[1] = 0; mss[0] = mss[1] = 100; wnd[0] = wnd[1] = 400; }
    std::string line() const {
        KV k; k.set("conn", id).set("ca", addr[0].hexs()).set("cp", port[0]).set("sa", addr[1].hexs()).set("sp", port[1])
         .setu("cisn", isn[0]).setu("sisn", isn[1]).set("c2s", data[0]).set("s2c", data[1]).set("hs", handshake ? 1 : 0).set("close", close);
        return k.line();
    }
    static ConnSpec parse(const std::string& l) {
        KV k(l); ConnSpec c; c.id = (int)k.num("conn"); c.addr[0] = Addr::from_hex(k.str("ca")); c.addr[1] = Addr::from_hex(k.str("sa"));
        c.port[0] = (uint16_t)k.num("cp"); c.port[1] = (uint16_t)k.num("sp"); c.isn[0] = (uint32_t)k.u64("cisn"); c.isn[1] = (uint32_t)k.u64("sisn");
        c.data[0] = k.bytes("c2s"); c.data[1] = k.bytes("s2c"); c.handshake = k.num("hs"); c.close = (int)k.num("close"); return c;
    }
};

struct NetCfg {
    double loss, dup, tap_loss, tap_dup; int64_t lat, jit, tap_jit; bool tap_fifo;
    NetCfg() : loss(0), dup(0), tap_loss(0), tap_dup(0), lat(1000), jit(0), tap_jit(0), tap_fifo(false) {}
};

struct TapRec { int64_t t; uint64_t ord; Bytes frame; int conn, dir; std::string note; };

struct World {
    EventQueue q; Rng net_rng; NetCfg net; std::vector<TapRec> tap; uint64_t ord;
    std::map<std::string, uint64_t> faults;   // realised fault counts
    int64_t tap_last;
    World() : ord(0), tap_last(0) {}
};

inline Mac mac_of(const Addr& a) { Mac m; m.b[0] = 2; m.b[1] = a.is6() ? 6 : 4; memcpy(m.b + 2, a.b + (a.is6() ? 12 : 0), 4); return m; }

struct ConnSim;
struct Half {
    // sender side
    uint32_t snd_base; size_t una, nxt; bool fin_needed, fin_sent, fin_acked; std::vector<bool> sacked;
    int64_t rto; uint64_t timer_gen; int rtx_count;
    // receiver side (for the peer's data)
    uint32_t rcv_base; bool rcv_base_known; std::vector<bool> got; size_t rcv_nxt; bool peer_fin_seen; size_t peer_fin_off; bool peer_fin_consumed;
    std::vector<std::pair<size_t, size_t> > sack_recent;  // recently reported/changed blocks, most recent first (offsets, half-open)
    int state;   // 0 closed, 1 syn-sent, 2 syn-rcvd, 3 established, 4 dead
    Half() : snd_base(0), una(0), nxt(0), fin_needed(false), fin_sent(false), fin_acked(false), rto(20000), timer_gen(0), rtx_count(0),
             rcv_base(0), rcv_base_known(false), rcv_nxt(0), peer_fin_seen(false), peer_fin_off(0), peer_fin_consumed(false), state(0) {}
};

struct ConnSim {
    World& w; ConnSpec c; Half h[2]; Rng rng; uint16_t ipid[2]; bool dead;
    ConnSim(World& world, const ConnSpec& spec, uint64_t seed) : w(world), c(spec), rng(seed), dead(false) {
        for (int s = 0; s < 2; ++s) {
            h[s].snd_base = c.isn[s] + 1; h[s].sacked.assign(c.data[s].size(), false);
            h[s].got.assign(c.data[1 - s].size(), false); ipid[s] = (uint16_t)rng.next();
        }
    }
    // ---- wire
    void emit(int side, TcpSeg seg, const std::string& note) {
        seg.sport = c.port[side]; seg.dport = c.port[1 - side];
        if (c.tsopt && !(seg.flags & TH_RST)) seg.opt_timestamp((uint32_t)(w.q.now / 1000), 0);
        Bytes f = tcp_frame(seg, c.addr[side], c.addr[1 - side], mac_of(c.addr[side]), mac_of(c.addr[1 - side]), ipid[side]++);
        // network between the endpoints; the tap sits on the path
        bool lost_before_tap = w.net_rng.chance(w.net.loss / 2);
        if (lost_before_tap) { w.faults["fault.loss"]++; return; }
        int copies = 1; if (w.net_rng.chance(w.net.dup)) { copies = 2; w.faults["fault.dup"]++; }
        for (int k = 0; k < copies; ++k) {
            int64_t d1 = w.net.lat / 2 + (w.net.jit ? (int64_t)w.net_rng.below((uint64_t)w.net.jit + 1) : 0);
            if (d1 > w.net.lat / 2 + w.net.jit / 2) w.faults["fault.delay"]++;
            // tap copy
            if (w.net_rng.chance(w.net.tap_loss)) w.faults["fault.capture_loss"]++;
            else {
                int64_t tt = w.q.now + d1 + (w.net.tap_jit ? (int64_t)w.net_rng.below((uint64_t)w.net.tap_jit + 1) : 0);
                TapRec r; r.t = tt; r.ord = ++w.ord; r.frame = f; r.conn = c.id; r.dir = side; r.note = note + (k ? "+netdup" : ""); w.tap.push_back(r);
                if (w.net_rng.chance(w.net.tap_dup)) { TapRec r2 = r; r2.ord = ++w.ord; r2.t = tt + (int64_t)w.net_rng.below(2000); r2.note += "+tapdup"; w.tap.push_back(r2); w.faults["fault.tap_dup"]++; }
            }
            bool lost_after_tap = w.net_rng.chance(w.net.loss / 2);
            if (lost_after_tap) { w.faults["fault.loss"]++; continue; }
            int64_t d2 = w.net.lat / 2 + (w.net.jit ? (int64_t)w.net_rng.below((uint64_t)w.net.jit + 1) : 0);
            Bytes copy = f; int to = 1 - side;
            w.q.after(d1 + d2, [this, copy, to]() { this->receive(to, copy); });
        }
    }
    // ---- sender
    uint32_t cur_ack(int side) const { const Half& x = h[side]; if (!x.rcv_base_known) return 0; return x.rcv_base + (uint32_t)x.rcv_nxt + (x.peer_fin_consumed ? 1 : 0); }
    void arm(int side) {
        Half& x = h[side]; uint64_t g = ++x.timer_gen; int64_t d = x.rto;
        w.q.after(d, [this, side, g]() { if (!dead && h[side].timer_gen == g) on_rto(side); });
    }
    void send_data(int side, size_t off, size_t len, bool fin, const std::string& note) {
        TcpSeg s; s.seq = h[side].snd_base + (uint32_t)off; s.ack = cur_ack(side); s.flags = TH_ACK | (len ? TH_PSH : 0) | (fin ? TH_FIN : 0);
        s.payload.assign(c.data[side].begin() + off, c.data[side].begin() + off + len);
        emit(side, s, note + fmt(":off=%zu:len=%zu%s", off, len, fin ? ":FIN" : ""));
    }
    void pump(int side) {
        Half& x = h[side]; if (x.state != 3 || dead) return;
        const size_t L = c.data[side].size(); bool sent = false;
        while (x.nxt < L && x.nxt - x.una < (size_t)c.wnd[side]) {
            size_t sz = (size_t)rng.range(1, c.mss[side]); if (rng.chance(0.6)) sz = c.mss[side];
            if (sz > L - x.nxt) sz = L - x.nxt;
            bool fin = x.fin_needed && c.fin_with_data && x.nxt + sz == L && !x.fin_sent;
            send_data(side, x.nxt, sz, fin, "orig"); x.nxt += sz; sent = true; if (fin) x.fin_sent = true;
        }
        if (x.nxt == L && x.fin_needed && !x.fin_sent && (x.una == L || rng.chance(0.5))) { send_data(side, L, 0, true, "fin"); x.fin_sent = true; sent = true; }
        if (sent) arm(side);
    }
    void on_rto(int side) {
        Half& x = h[side]; if (dead || x.state == 4) return;
        if (x.state == 1 || x.state == 2) { if (++x.rtx_count > 5) { x.state = 4; return; } w.faults["fault.retransmit"]++; if (x.state == 1) send_syn(side); else send_synack(side); return; }
        const size_t L = c.data[side].size();
        if (x.una >= L && (!x.fin_sent || x.fin_acked)) return;
        if (++x.rtx_count > 60) return;     // give up (connection stays half-open)
        w.faults["fault.retransmit"]++;
        // retransmit from the first un-acked, un-sacked hole, with NEW boundaries
        int nseg = (int)rng.range(1, 3); size_t pos = x.una;
        for (int i = 0; i < nseg && pos < L; ++i) {
            while (pos < L && x.sacked[pos]) ++pos;
            if (pos >= L) break;
            size_t start = pos; int style = (int)rng.below(5);
            size_t sz = (size_t)rng.range(1, 2 * c.mss[side]);
            if (style == 0 && start > 0) { size_t back = (size_t)rng.range(1, std::min<size_t>(start, (size_t)c.mss[side])); start -= back; sz += back; w.faults["fault.rtx_shift_back"]++; }   // re-send bytes below una as well
            if (style == 1) { sz = (size_t)rng.range(1, 4 * c.mss[side]); w.faults["fault.rtx_super"]++; }    // super segment over several earlier ones
            if (style == 2) { sz = (size_t)rng.range(1, std::max(1, c.mss[side] / 2)); w.faults["fault.rtx_split"]++; }
            if (start + sz > x.nxt) sz = x.nxt - start;       // only bytes already sent once
            if (sz == 0) break;
            bool fin = x.fin_sent && c.fin_with_data && start + sz == L;
            send_data(side, start, sz, fin, "rtx"); pos = start + sz;
        }
        if (x.una >= L && x.fin_sent && !x.fin_acked) send_data(side, L, 0, true, "rtx-fin");
        x.rto = std::min<int64_t>(x.rto * 2, 400000); arm(side);
    }
    void send_syn(int side) { TcpSeg s; s.seq = c.isn[side]; s.ack = 0; s.flags = (uint8_t)(TH_SYN | (c.ecn ? 0xc0 : 0));   /* ECN-setup SYN: SYN|ECE|CWR (RFC 3168) */ s.opt_mss((uint16_t)c.mss[side]); if (c.sack && c.sack_asym != 2) s.opt_sack_permitted(); emit(side, s, "syn"); h[side].rto = std::min<int64_t>(h[side].rto * 2, 400000); arm(side); }
    void send_synack(int side) { TcpSeg s; s.seq = c.isn[side]; s.ack = c.isn[1 - side] + 1; s.flags = (uint8_t)(TH_SYN | TH_ACK | (c.ecn ? 0x40 : 0));   /* ECN-setup SYN-ACK: SYN|ACK|ECE */ s.opt_mss((uint16_t)c.mss[side]); if (c.sack && c.sack_asym != 1) s.opt_sack_permitted(); emit(side, s, "synack"); h[side].rto = std::min<int64_t>(h[side].rto * 2, 400000); arm(side); }
    void send_ack(int side, const std::string& note) {
        Half& x = h[side]; TcpSeg s; s.seq = x.snd_base + (uint32_t)x.nxt + (x.fin_sent ? 1 : 0); s.ack = cur_ack(side); s.flags = TH_ACK;
        if (c.sack && !(c.sack_asym == 1 && side == 0) && !(c.sack_asym == 2 && side == 1)) {      // a side sends blocks only if its peer offered SACK-permitted
            // RFC 2018: first block contains the most recently received segment; then most recently reported others
            std::vector<std::pair<uint32_t, uint32_t> > blocks; size_t maxb = c.tsopt ? 3 : 4;
            std::vector<std::pair<size_t, size_t> > keep;
            for (auto& b : x.sack_recent) {
                if (b.first < x.rcv_nxt) continue;                        // now below the cumulative ACK
                // grow to the maximal run containing it
                size_t lo = b.first, hi = b.second; if (lo >= x.got.size() || !x.got[lo]) continue;
                while (lo > 0 && x.got[lo - 1]) --lo; while (hi < x.got.size() && x.got[hi]) ++hi;
                if (lo <= x.rcv_nxt) continue;
                bool dupb = false; for (auto& k : keep) if (k.first == lo) dupb = true;
                if (dupb) continue;
                keep.push_back(std::make_pair(lo, hi));
            }
            x.sack_recent = keep;
            for (size_t i = 0; i < keep.size() && i < maxb; ++i) blocks.push_back(std::make_pair(x.rcv_base + (uint32_t)keep[i].first, x.rcv_base + (uint32_t)keep[i].second));
            if (!blocks.empty()) s.opt_sack(blocks);
        }
        emit(side, s, note);
    }
    // ---- receiver
    void receive(int side, const Bytes& frame) {
        if (dead) return; Half& x = h[side]; if (x.state == 4) return;
        Decoded d = decode_eth(frame); if (!d.is_tcp) return; const TcpSeg& t = d.tcp;
        if (t.flags & TH_RST) { x.state = 4; h[1 - side].state = h[1 - side].state; dead_side(side); return; }
        if (t.flags & TH_SYN) {
            if (!(t.flags & TH_ACK)) {      // SYN at server
                if (side != 1) return;
                x.rcv_base = t.seq + 1; x.rcv_base_known = true;
                if (x.state == 0) { x.state = 2; x.rto = 20000; send_synack(side); } else if (x.state == 2) { /* timer resends */ } else send_ack(side, "ack-dup-syn");
            } else {                         // SYN-ACK at client
                if (side != 0) return;
                x.rcv_base = t.seq + 1; x.rcv_base_known = true;
                if (x.state == 1) { x.state = 3; ++x.timer_gen; x.rto = 20000; send_ack(side, "hs-ack"); pump(side); }
                else send_ack(side, "ack-dup-synack");
            }
            return;
        }
        if (x.state == 2 && (t.flags & TH_ACK)) { x.state = 3; ++x.timer_gen; x.rto = 20000; pump(side); }
        if (x.state != 3) return;
        // ACK processing for our own data
        if (t.flags & TH_ACK) {
            int32_t a = seq_diff(t.ack, x.snd_base); const size_t L = c.data[side].size();
            if (a >= 0) {
                size_t ao = (size_t)a; if (ao > L) { if (x.fin_sent && ao == L + 1) x.fin_acked = true; ao = L; }
                if (ao > x.una) { x.una = ao; x.rto = 20000; x.rtx_count = 0; if (x.una < x.nxt || (x.fin_sent && !x.fin_acked)) arm(side); else ++x.timer_gen; }
            }
            for (auto& b : d.sack) { int32_t lo = seq_diff(b.first, x.snd_base), hi = seq_diff(b.second, x.snd_base); for (int32_t i = std::max(lo, 0); i < hi && i < (int32_t)L; ++i) x.sacked[i] = true; }
        }
        // data / FIN for the peer's stream
        bool need_ack = false;
        if (!t.payload.empty() || (t.flags & TH_FIN)) {
            int32_t off = seq_diff(t.seq, x.rcv_base); size_t n = t.payload.size();
            size_t lo = SIZE_MAX, hi = 0;
            for (size_t i = 0; i < n; ++i) { int64_t o = (int64_t)off + (int64_t)i; if (o < 0 || o >= (int64_t)x.got.size()) continue; x.got[o] = true; lo = std::min(lo, (size_t)o); hi = std::max(hi, (size_t)o + 1); }
            while (x.rcv_nxt < x.got.size() && x.got[x.rcv_nxt]) ++x.rcv_nxt;
            if (t.flags & TH_FIN) { x.peer_fin_seen = true; x.peer_fin_off = (size_t)((int64_t)off + (int64_t)n); }
            if (x.peer_fin_seen && x.rcv_nxt >= x.peer_fin_off) x.peer_fin_consumed = true;
            if (lo != SIZE_MAX && lo > x.rcv_nxt) x.sack_recent.insert(x.sack_recent.begin(), std::make_pair(lo, hi));
            else if (lo != SIZE_MAX && !x.sack_recent.empty()) { /* in-order data: existing blocks are re-reported */ }
            need_ack = true;
        }
        if (need_ack) send_ack(side, "ack");
        pump(side);
        maybe_close(side);
    }
    void dead_side(int) { dead = true; }
    void maybe_close(int side) {
        // passive close: server (or client) answers a consumed FIN with its own FIN when close==1
        Half& x = h[side];
        if (c.close == 1 && x.peer_fin_consumed && !x.fin_needed) { x.fin_needed = true; pump(side); }
    }
    void start() {
        w.q.after(c.start_us, [this]() {
            if (c.handshake) { h[0].state = 1; h[0].rto = 20000; send_syn(0); }
            else { for (int s = 0; s < 2; ++s) { h[s].state = 3; h[s].rcv_base = c.isn[1 - s] + 1; h[s].rcv_base_known = true; } pump(0); pump(1); }
        });
        if (c.close == 1 || c.close == 4 || c.close == 5) h[0].fin_needed = true;
        if (c.close == 2 || c.close == 3 || c.close == 4) {
            int who = c.close == 2 ? 0 : 1;
            w.q.after(c.start_us + c.rst_after_us, [this, who]() {
                if (dead || h[who].state != 3) { if (h[who].state == 0 || h[who].state == 4) return; }
                TcpSeg s; s.seq = h[who].snd_base + (uint32_t)h[who].nxt; s.ack = cur_ack(who); s.flags = TH_RST | TH_ACK; emit(who, s, "rst");
                h[who].state = 4; // sender of RST stops; peer stops when it receives it
            });
        }
    }
};

// Pull the tap records into a stable, time-ordered list. If `handshake_first` each connection's
// SYN and SYN-ACK precede its other frames at the tap (the stated premise of the follower checks).
inline void finish_tap(World& w, bool fifo) {
    std::stable_sort(w.tap.begin(), w.tap.end(), [](const TapRec& a, const TapRec& b) { return a.t != b.t ? a.t < b.t : a.ord < b.ord; });
    if (fifo) { std::stable_sort(w.tap.begin(), w.tap.end(), [](const TapRec& a, const TapRec& b) { return a.ord < b.ord; }); int64_t t = 0; for (auto& r : w.tap) { if (r.t < t) r.t = t; t = r.t; } }
}

} // namespace tcpm
