// Simulated wall clock: the harness executable defines the libc time functions, so every clock read
// made by libtins / libstdc++ / libpcap inside the process resolves here. While g_sim_now_us < 0 the
// real clock is passed through (raw system call). Each call may advance simulated time by
// g_sim_tick_us so that a polling loop cannot freeze the clock.
#pragma once
#include <time.h>
#include <sys/time.h>
#include <sys/syscall.h>
#include <unistd.h>
#include <stdint.h>

namespace sim {
static volatile int64_t g_sim_now_us = -1;      // microseconds since the epoch when active
static volatile int64_t g_sim_tick_us = 0;
static volatile uint64_t g_sim_clock_reads = 0;
inline int64_t sim_clock_read() { ++g_sim_clock_reads; int64_t v = g_sim_now_us; g_sim_now_us = v + g_sim_tick_us; return v; }
}

extern "C" {
int clock_gettime(clockid_t id, struct timespec* ts) {
    if (sim::g_sim_now_us < 0) return (int)syscall(SYS_clock_gettime, id, ts);
    int64_t v = sim::sim_clock_read(); ts->tv_sec = v / 1000000; ts->tv_nsec = (v % 1000000) * 1000; return 0;
}
int gettimeofday(struct timeval* tv, void* tz) {
    (void)tz;
    if (sim::g_sim_now_us < 0) { struct timespec ts; syscall(SYS_clock_gettime, CLOCK_REALTIME, &ts); tv->tv_sec = ts.tv_sec; tv->tv_usec = ts.tv_nsec / 1000; return 0; }
    int64_t v = sim::sim_clock_read(); tv->tv_sec = v / 1000000; tv->tv_usec = v % 1000000; return 0;
}
time_t time(time_t* t) {
    time_t r;
    if (sim::g_sim_now_us < 0) { struct timespec ts; syscall(SYS_clock_gettime, CLOCK_REALTIME, &ts); r = ts.tv_sec; }
    else r = (time_t)(sim::sim_clock_read() / 1000000);
    if (t) *t = r; return r;
}
}
