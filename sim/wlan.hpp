// Independent 802.11 frame model for the wlan engine: header encoder/decoder, beacons, data frames, EAPOL-Key messages.
#pragma once
#include "kernel.hpp"
#include "codec.hpp"
#include "crypto.hpp"

namespace wlan {
using sim::Bytes; using codec::Mac; using namespace codec;

struct Frame {      // decoded 802.11 frame (after any radiotap header and without FCS)
    bool ok; uint16_t fc; int type, subtype; bool to_ds, from_ds, more_frag, retry, protected_, order; uint16_t dur, sc; uint8_t a1[6], a2[6], a3[6], a4[6]; bool has_a4, qos; uint16_t qc; size_t hdr_len; Bytes body;
    Frame() : ok(false), fc(0), type(0), subtype(0), to_ds(false), from_ds(false), more_frag(false), retry(false), protected_(false), order(false), dur(0), sc(0), has_a4(false), qos(false), qc(0), hdr_len(0) { memset(a1, 0, 6); memset(a2, 0, 6); memset(a3, 0, 6); memset(a4, 0, 6); }
    const uint8_t* bssid() const { return (from_ds && !to_ds) ? a2 : (!from_ds && to_ds) ? a1 : a3; }
    const uint8_t* sa() const { return (from_ds && !to_ds) ? a3 : (from_ds && to_ds) ? a4 : a2; }
    const uint8_t* da() const { return to_ds ? a3 : a1; }
    wcrypto::Dot11Hdr hdr() const { wcrypto::Dot11Hdr h; h.fc = fc; memcpy(h.a1, a1, 6); memcpy(h.a2, a2, 6); memcpy(h.a3, a3, 6); memcpy(h.a4, a4, 6); h.sc = sc; h.has_a4 = has_a4; h.qos = qos; h.qc = qc; return h; }
};
inline Frame parse_dot11(const uint8_t* p, size_t n) {
    Frame f; if (n < 10) return f; f.fc = (uint16_t)(p[0] | p[1] << 8); f.type = (p[0] >> 2) & 3; f.subtype = p[0] >> 4; f.to_ds = p[1] & 1; f.from_ds = p[1] & 2; f.more_frag = p[1] & 4; f.retry = p[1] & 8; f.protected_ = p[1] & 0x40; f.order = p[1] & 0x80; f.dur = (uint16_t)(p[2] | p[3] << 8); memcpy(f.a1, p + 4, 6);
    if (f.type == 1) { f.ok = true; f.hdr_len = 10; return f; }
    if (n < 24) return f; memcpy(f.a2, p + 10, 6); memcpy(f.a3, p + 16, 6); f.sc = (uint16_t)(p[22] | p[23] << 8); size_t o = 24;
    if (f.type == 2) { if (f.to_ds && f.from_ds) { if (n < o + 6) return f; memcpy(f.a4, p + o, 6); f.has_a4 = true; o += 6; } if (f.subtype & 8) { if (n < o + 2) return f; f.qos = true; f.qc = (uint16_t)(p[o] | p[o + 1] << 8); o += 2; } }
    f.hdr_len = o; f.body.assign(p + o, p + n); f.ok = true; return f;
}
// radiotap: version(1) pad(1) len(2 LE) present(4 LE)... ; returns the 802.11 part with FCS removed when the flags field says so
inline bool strip_radiotap(const Bytes& b, Bytes& dot11) {
    if (b.size() < 8) return false; size_t len = (size_t)(b[2] | b[3] << 8); if (len > b.size()) return false; uint32_t present = (uint32_t)b[4] | (uint32_t)b[5] << 8 | (uint32_t)b[6] << 16 | (uint32_t)b[7] << 24; size_t o = 8; uint32_t pr = present; while (pr & 0x80000000u) { if (o + 4 > len) return false; pr = (uint32_t)b[o] | (uint32_t)b[o + 1] << 8 | (uint32_t)b[o + 2] << 16 | (uint32_t)b[o + 3] << 24; o += 4; }
    bool fcs = false; if (present & 1) { o = (o + 7) & ~(size_t)7; o += 8; } if (present & 2) { if (o < len) fcs = b[o] & 0x10; }
    dot11.assign(b.begin() + len, b.end()); if (fcs && dot11.size() >= 4) dot11.resize(dot11.size() - 4); return true;
}

// ---- builders
inline Bytes radiotap_wrap(const Bytes& dot11) { Bytes h; h.push_back(0); h.push_back(0); h.push_back(8); h.push_back(0); put32(h, 0); putb(h, dot11); return h; }
inline Bytes beacon(const Mac& bssid, const std::string& ssid, uint16_t seq, bool privacy, bool rsn) {
    Bytes f; f.push_back(0x80); f.push_back(0); put16(f, 0); for (int i = 0; i < 6; ++i) f.push_back(0xff); putb(f, bssid.b, 6); putb(f, bssid.b, 6); f.push_back((uint8_t)((seq << 4) & 0xff)); f.push_back((uint8_t)(seq >> 4));
    for (int i = 0; i < 8; ++i) f.push_back((uint8_t)(seq * 7 + i)); f.push_back(100); f.push_back(0); f.push_back(privacy ? 0x11 : 0x01); f.push_back(0x04);
    f.push_back(0); f.push_back((uint8_t)ssid.size()); f.insert(f.end(), ssid.begin(), ssid.end()); const uint8_t rates[6] = { 1, 4, 0x82, 0x84, 0x8b, 0x96 }; putb(f, rates, 6); f.push_back(3); f.push_back(1); f.push_back(6);
    if (rsn) { const uint8_t r[22] = { 48, 20, 1, 0, 0x00, 0x0f, 0xac, 4, 1, 0, 0x00, 0x0f, 0xac, 4, 1, 0, 0x00, 0x0f, 0xac, 2, 0, 0 }; putb(f, r, 22); }
    return f;
}
struct DataSpec { bool to_ds, from_ds, qos, protected_, retry, more_frag; uint8_t tid; uint16_t seq; uint8_t frag; uint8_t cf; /* low subtype bits: 0 Data, 1 +CF-Ack, 2 +CF-Poll, 3 +CF-Ack+CF-Poll (legal data-carrying subtypes) */ Mac a1, a2, a3, a4; DataSpec() : to_ds(false), from_ds(false), qos(false), protected_(false), retry(false), more_frag(false), tid(0), seq(0), frag(0), cf(0) {} };
inline Bytes data_header(const DataSpec& d) {
    Bytes f; f.push_back((uint8_t)((((d.qos ? 8 : 0) | (d.cf & 3)) << 4) | 0x08)); f.push_back((uint8_t)((d.to_ds ? 1 : 0) | (d.from_ds ? 2 : 0) | (d.more_frag ? 4 : 0) | (d.retry ? 8 : 0) | (d.protected_ ? 0x40 : 0))); put16(f, 0x2c00);
    putb(f, d.a1.b, 6); putb(f, d.a2.b, 6); putb(f, d.a3.b, 6); uint16_t sc = (uint16_t)((d.seq << 4) | (d.frag & 0xf)); f.push_back((uint8_t)(sc & 0xff)); f.push_back((uint8_t)(sc >> 8)); if (d.to_ds && d.from_ds) putb(f, d.a4.b, 6); if (d.qos) { f.push_back(d.tid & 0xf); f.push_back(0); } return f;
}
inline Bytes llc_snap(uint16_t ethertype, const Bytes& payload) { Bytes b; const uint8_t s[6] = { 0xaa, 0xaa, 0x03, 0, 0, 0 }; putb(b, s, 6); put16(b, ethertype); putb(b, payload); return b; }

// ---- EAPOL-Key (RSN/WPA descriptor)
struct EapolKey { uint8_t version, desc_type; uint16_t key_info, key_len; uint64_t replay; uint8_t nonce[32], iv[16], rsc[8], id[8], mic[16]; Bytes data; bool ok;
    EapolKey() : version(1), desc_type(2), key_info(0), key_len(16), replay(0), ok(false) { memset(nonce, 0, 32); memset(iv, 0, 16); memset(rsc, 0, 8); memset(id, 0, 8); memset(mic, 0, 16); }
    int desc_version() const { return key_info & 7; } bool pairwise() const { return key_info & 8; } bool install() const { return key_info & 0x40; } bool ack() const { return key_info & 0x80; } bool has_mic() const { return key_info & 0x100; } bool secure() const { return key_info & 0x200; }
    int msg() const { if (!pairwise()) return 0; if (ack() && !has_mic() && !install()) return 1; if (!ack() && has_mic() && !install()) return secure() ? 4 : 2; if (ack() && has_mic() && install()) return 3; return 0; } };
inline Bytes eapol_bytes(const EapolKey& k, bool zero_mic = false) {
    Bytes b; b.push_back(k.version); b.push_back(3); put16(b, (uint16_t)(95 + k.data.size())); b.push_back(k.desc_type); put16(b, k.key_info); put16(b, k.key_len); put32(b, (uint32_t)(k.replay >> 32)); put32(b, (uint32_t)k.replay);
    putb(b, k.nonce, 32); putb(b, k.iv, 16); putb(b, k.rsc, 8); putb(b, k.id, 8); if (zero_mic) for (int i = 0; i < 16; ++i) b.push_back(0); else putb(b, k.mic, 16); put16(b, (uint16_t)k.data.size()); putb(b, k.data); return b;
}
inline EapolKey parse_eapol(const Bytes& b) {
    EapolKey k; if (b.size() < 99 || b[1] != 3) return k; k.version = b[0]; k.desc_type = b[4]; k.key_info = get16(&b[5]); k.key_len = get16(&b[7]); k.replay = ((uint64_t)get32(&b[9]) << 32) | get32(&b[13]); memcpy(k.nonce, &b[17], 32); memcpy(k.iv, &b[49], 16); memcpy(k.rsc, &b[65], 8); memcpy(k.id, &b[73], 8); memcpy(k.mic, &b[81], 16);
    size_t dl = get16(&b[97]); if (99 + dl > b.size()) dl = b.size() - 99; k.data.assign(b.begin() + 99, b.begin() + 99 + dl); k.ok = true; return k;
}
inline bool is_eapol_body(const Bytes& body, Bytes& eapol) { static const uint8_t s[8] = { 0xaa, 0xaa, 0x03, 0, 0, 0, 0x88, 0x8e }; if (body.size() < 8 || memcmp(body.data(), s, 8) != 0) return false; eapol.assign(body.begin() + 8, body.end()); return true; }

} // namespace wlan
