// The "application" that inspects an accepted packet: walks the layers and applies every read-only accessor
// (typed option/record decoders, DNS section getters, size queries, cloning, destruction), and decodes application
// payloads the way the shipped examples do (DNS on 53, DHCP on 67/68, DHCPv6 on 546/547, VXLAN on 4789, RTP).
// serialize() is deliberately not called (that is C02's subject). libtins exceptions are allowed; the caller treats any
// other exception as a violation.
#pragma once
#include <tins/tins.h>
#include <tins/pktap.h>
#include <tins/loopback.h>
#include <tins/rtp.h>
#include <tins/vxlan.h>
#include <memory>
#include <type_traits>

namespace inspect {
using namespace Tins;
struct Counters { uint64_t calls, tins_exc, layers, app_decodes; Counters() : calls(0), tins_exc(0), layers(0), app_decodes(0) {} };
// every arithmetic / enum / string value an accessor returns is folded into a per-thread digest (class types are only evaluated: their padding
// bytes are indeterminate). The wire engine compares the digest of two executions that differ only in the byte pattern fresh heap memory is
// filled with: a difference means the result was computed from memory nobody initialised.
inline uint64_t& digest() { static thread_local uint64_t d = 0; return d; }
inline void fold(uint64_t v) { uint64_t& d = digest(); d = (d ^ v) * 0x100000001b3ULL; d ^= d >> 29; }
template <class T> inline typename std::enable_if<std::is_arithmetic<T>::value || std::is_enum<T>::value>::type sink(const T& v) { fold((uint64_t)v); }
template <class T> inline typename std::enable_if<!(std::is_arithmetic<T>::value || std::is_enum<T>::value)>::type sink(const T& v) { volatile char c = *(const char*)&v; (void)c; }
inline void sink(const std::string& s) { fold(s.size()); for (char ch : s) fold((uint8_t)ch); }
template <class T> inline void sink(const std::vector<T>& v) { fold(v.size()); for (auto& x : v) sink(x); }
template <class A, class B> inline void sink(const std::pair<A, B>& p) { sink(p.first); sink(p.second); }
#define G(o, m) do { ++c.calls; try { sink((o).m()); } catch (Tins::exception_base&) { ++c.tins_exc; } } while (0)
#define GV(o, m) do { ++c.calls; try { (void)(o).m(); } catch (Tins::exception_base&) { ++c.tins_exc; } } while (0)

template <class Opts> inline void walk_options(const Opts& opts, Counters& c) { for (auto& o : opts) { ++c.calls; sink(o.option()); volatile size_t n = o.data_size(); (void)n; volatile size_t l = o.length_field(); (void)l; const uint8_t* p = o.data_ptr(); for (size_t i = 0; i < o.data_size(); ++i) { volatile uint8_t b = p[i]; (void)b; } } }

inline void dns(const DNS& d, Counters& c) {
    G(d, id); G(d, type); G(d, opcode); G(d, rcode); G(d, questions_count); G(d, answers_count); G(d, authority_count); G(d, additional_count);
    ++c.calls; try { for (auto& q : d.queries()) { sink(q.dname()); sink(q.query_type()); } } catch (Tins::exception_base&) { ++c.tins_exc; }
    ++c.calls; try { for (auto& r : d.answers()) { sink(r.dname()); sink(r.data()); sink(r.ttl()); sink(r.preference()); } } catch (Tins::exception_base&) { ++c.tins_exc; }
    ++c.calls; try { for (auto& r : d.authority()) { sink(r.dname()); sink(r.data()); } } catch (Tins::exception_base&) { ++c.tins_exc; }
    // typed view of SOA records, as an application reading zone data would take it
    { std::vector<DNS::resource> all; try { all = d.answers(); } catch (Tins::exception_base&) {} try { DNS::resources_type au = d.authority(); all.insert(all.end(), au.begin(), au.end()); } catch (Tins::exception_base&) {} try { DNS::resources_type ad = d.additional(); all.insert(all.end(), ad.begin(), ad.end()); } catch (Tins::exception_base&) {}
      for (auto& r : all) if (r.query_type() == DNS::SOA) { ++c.calls; try { DNS::soa_record so(r); sink(so.mname()); sink(so.rname()); sink(so.serial()); sink(so.refresh()); sink(so.retry()); sink(so.expire()); sink(so.minimum_ttl()); } catch (Tins::exception_base&) { ++c.tins_exc; } } }
    ++c.calls; try { for (auto& r : d.additional()) { sink(r.dname()); sink(r.data()); } } catch (Tins::exception_base&) { ++c.tins_exc; }
}
inline void dhcp(const DHCP& d, Counters& c) {
    G(d, opcode); G(d, htype); G(d, hlen); G(d, hops); G(d, xid); G(d, secs); G(d, padding); G(d, ciaddr); G(d, yiaddr); G(d, siaddr); G(d, giaddr); G(d, chaddr); G(d, sname); G(d, file);
    walk_options(d.options(), c); G(d, type); G(d, server_identifier); G(d, lease_time); G(d, renewal_time); G(d, rebind_time); G(d, subnet_mask); G(d, routers); G(d, domain_name_servers); G(d, broadcast); G(d, requested_ip); G(d, domain_name); G(d, hostname);
}
inline void dhcpv6(const DHCPv6& d, Counters& c) {
    G(d, msg_type); G(d, hop_count); G(d, transaction_id); G(d, peer_address); G(d, link_address); G(d, is_relay_message); walk_options(d.options(), c);
    G(d, ia_na); G(d, ia_ta); G(d, ia_address); G(d, option_request); G(d, preference); G(d, elapsed_time); G(d, relay_message); G(d, authentication); G(d, server_unicast); G(d, status_code); G(d, has_rapid_commit); G(d, user_class); G(d, vendor_class); G(d, vendor_info); G(d, interface_id); G(d, reconfigure_msg); G(d, has_reconfigure_accept); G(d, client_id); G(d, server_id);
}
inline void mgmt(const Dot11ManagementFrame& m, Counters& c) {
    G(m, addr2); G(m, addr3); G(m, addr4); G(m, frag_num); G(m, seq_num); G(m, ssid); G(m, rsn_information); G(m, supported_rates); G(m, extended_supported_rates); G(m, qos_capability); G(m, power_capability); G(m, supported_channels); G(m, request_information);
    G(m, fh_parameter_set); G(m, ds_parameter_set); G(m, cf_parameter_set); G(m, ibss_parameter_set); G(m, ibss_dfs); G(m, country); G(m, fh_parameters); G(m, fh_pattern_table); G(m, power_constraint); G(m, channel_switch); G(m, quiet); G(m, tpc_report); G(m, erp_information); G(m, bss_load); G(m, tim); G(m, challenge_text); G(m, vendor_specific);
}

inline void layer(const PDU& p, Counters& c) {
    ++c.layers; GV(p, header_size); GV(p, trailer_size); GV(p, size); GV(p, advertised_size); GV(p, pdu_type);
    switch (p.pdu_type()) {
        case PDU::ETHERNET_II: { const EthernetII& e = static_cast<const EthernetII&>(p); G(e, dst_addr); G(e, src_addr); G(e, payload_type); break; }
        case PDU::IEEE802_3: { const Dot3& e = static_cast<const Dot3&>(p); G(e, dst_addr); G(e, src_addr); G(e, length); break; }
        case PDU::DOT1Q: { const Dot1Q& e = static_cast<const Dot1Q&>(p); G(e, priority); G(e, cfi); G(e, id); G(e, payload_type); G(e, append_padding); break; }
        case PDU::SLL: { const SLL& e = static_cast<const SLL&>(p); G(e, packet_type); G(e, lladdr_type); G(e, lladdr_len); G(e, address); G(e, protocol); break; }
        case PDU::LOOPBACK: { const Loopback& e = static_cast<const Loopback&>(p); G(e, family); break; }
        case PDU::PPI: { const PPI& e = static_cast<const PPI&>(p); G(e, version); G(e, flags); G(e, length); G(e, dlt); break; }
        case PDU::ARP: { const ARP& e = static_cast<const ARP&>(p); G(e, sender_hw_addr); G(e, sender_ip_addr); G(e, target_hw_addr); G(e, target_ip_addr); G(e, hw_addr_format); G(e, prot_addr_format); G(e, hw_addr_length); G(e, prot_addr_length); G(e, opcode); break; }
        case PDU::IP: { const IP& e = static_cast<const IP&>(p); G(e, head_len); G(e, tos); G(e, tot_len); G(e, id); G(e, fragment_offset); G(e, flags); G(e, ttl); G(e, protocol); G(e, checksum); G(e, src_addr); G(e, dst_addr); G(e, version); G(e, is_fragmented); walk_options(e.options(), c);
            G(e, security); G(e, lsrr); G(e, ssrr); G(e, record_route); G(e, stream_identifier); break; }
        case PDU::IPv6: { const IPv6& e = static_cast<const IPv6&>(p); G(e, version); G(e, traffic_class); G(e, flow_label); G(e, payload_length); G(e, next_header); G(e, hop_limit); G(e, src_addr); G(e, dst_addr); ++c.calls; for (auto& h : e.headers()) { sink(h.option()); volatile size_t n = h.data_size(); (void)n; const uint8_t* q = h.data_ptr(); for (size_t i = 0; i < h.data_size(); ++i) { volatile uint8_t b = q[i]; (void)b; } }
            ++c.calls; try { (void)e.search_header(IPv6::FRAGMENT); (void)e.search_header(IPv6::HOP_BY_HOP); } catch (Tins::exception_base&) { ++c.tins_exc; } break; }
        case PDU::TCP: { const TCP& e = static_cast<const TCP&>(p); G(e, sport); G(e, dport); G(e, seq); G(e, ack_seq); G(e, window); G(e, checksum); G(e, urg_ptr); G(e, data_offset); G(e, flags); walk_options(e.options(), c); G(e, mss); G(e, winscale); G(e, has_sack_permitted); G(e, sack); G(e, timestamp); G(e, altchecksum); break; }
        case PDU::UDP: { const UDP& e = static_cast<const UDP&>(p); G(e, sport); G(e, dport); G(e, length); G(e, checksum); break; }
        case PDU::ICMP: { const ICMP& e = static_cast<const ICMP&>(p); G(e, type); G(e, code); G(e, checksum); G(e, id); G(e, sequence); G(e, gateway); G(e, mtu); G(e, pointer); G(e, length); G(e, original_timestamp); G(e, receive_timestamp); G(e, transmit_timestamp); G(e, address_mask); G(e, has_extensions);
            ++c.calls; for (auto& x : e.extensions().extensions()) { sink(x.extension_class()); sink(x.extension_type()); sink(x.payload()); } break; }
        case PDU::ICMPv6: { const ICMPv6& e = static_cast<const ICMPv6&>(p); G(e, type); G(e, code); G(e, checksum); G(e, identifier); G(e, sequence); G(e, override); G(e, solicited); G(e, router); G(e, hop_limit); G(e, router_pref); G(e, home_agent); G(e, other); G(e, managed); G(e, router_lifetime); G(e, mtu); G(e, reachable_time); G(e, retransmit_timer); G(e, target_addr); G(e, dest_addr); G(e, multicast_addr); G(e, maximum_response_code); G(e, supress); G(e, qrv); G(e, qqic); G(e, length); G(e, has_extensions);
            walk_options(e.options(), c); G(e, source_link_layer_addr); G(e, target_link_layer_addr); G(e, prefix_info); G(e, redirect_header); G(e, shortcut_limit); G(e, new_advert_interval); G(e, new_home_agent_info); G(e, source_addr_list); G(e, target_addr_list); G(e, rsa_signature); G(e, timestamp); G(e, nonce); G(e, ip_prefix); G(e, link_layer_addr); G(e, naack); G(e, map); G(e, route_info); G(e, recursive_dns_servers); G(e, handover_key_request); G(e, handover_key_reply); G(e, handover_assist_info); G(e, mobile_node_identifier); G(e, dns_search_list); G(e, multicast_address_records); G(e, sources);
            ++c.calls; for (auto& x : e.extensions().extensions()) { sink(x.extension_class()); sink(x.payload()); } break; }
        case PDU::DNS: dns(static_cast<const DNS&>(p), c); break;
        case PDU::DHCP: dhcp(static_cast<const DHCP&>(p), c); break;
        case PDU::DHCPv6: dhcpv6(static_cast<const DHCPv6&>(p), c); break;
        case PDU::LLC: { LLC& e = const_cast<LLC&>(static_cast<const LLC&>(p)); /* getters are not const-qualified in libtins */ G(e, group); G(e, dsap); G(e, response); G(e, ssap); G(e, type); G(e, send_seq_number); G(e, receive_seq_number); G(e, poll_final); G(e, supervisory_function); G(e, modifier_function); break; }
        case PDU::SNAP: { const SNAP& e = static_cast<const SNAP&>(p); G(e, dsap); G(e, ssap); G(e, control); G(e, org_code); G(e, eth_type); break; }
        case PDU::STP: { const STP& e = static_cast<const STP&>(p); G(e, proto_id); G(e, proto_version); G(e, bpdu_type); G(e, bpdu_flags); G(e, root_id); G(e, root_path_cost); G(e, bridge_id); G(e, port_id); G(e, msg_age); G(e, max_age); G(e, hello_time); G(e, fwd_delay); break; }
        case PDU::PPPOE: { const PPPoE& e = static_cast<const PPPoE&>(p); G(e, version); G(e, type); G(e, code); G(e, session_id); G(e, payload_length); walk_options(e.tags(), c); G(e, service_name); G(e, ac_name); G(e, host_uniq); G(e, ac_cookie); G(e, vendor_specific); G(e, relay_session_id); G(e, service_name_error); G(e, ac_system_error); G(e, generic_error); break; }
        case PDU::MPLS: { const MPLS& e = static_cast<const MPLS&>(p); G(e, label); G(e, experimental); G(e, bottom_of_stack); G(e, ttl); break; }
        case PDU::IPSEC_AH: { const IPSecAH& e = static_cast<const IPSecAH&>(p); G(e, next_header); G(e, length); G(e, spi); G(e, seq_number); G(e, icv); break; }
        case PDU::IPSEC_ESP: { const IPSecESP& e = static_cast<const IPSecESP&>(p); G(e, spi); G(e, seq_number); break; }
        case PDU::RSNEAPOL: { const RSNEAPOL& e = static_cast<const RSNEAPOL&>(p); G(e, version); G(e, packet_type); G(e, length); G(e, type); G(e, key_length); G(e, replay_counter); G(e, wpa_length); G(e, key); G(e, key_mic); G(e, key_ack); G(e, secure); G(e, install); G(e, key_t); G(e, key_descriptor); ++c.calls; for (int i = 0; i < 32; ++i) { volatile uint8_t b = e.nonce()[i]; (void)b; } break; }
        case PDU::RC4EAPOL: { const RC4EAPOL& e = static_cast<const RC4EAPOL&>(p); G(e, version); G(e, packet_type); G(e, length); G(e, key_length); G(e, replay_counter); G(e, key_flag); G(e, key_index); G(e, key); break; }
        case PDU::RADIOTAP: { const RadioTap& e = static_cast<const RadioTap&>(p); G(e, version); G(e, padding); G(e, length); G(e, present); G(e, tsft); G(e, flags); G(e, rate); G(e, channel_freq); G(e, channel_type); G(e, dbm_signal); G(e, dbm_noise); G(e, signal_quality); G(e, antenna); G(e, db_signal); G(e, rx_flags); G(e, tx_flags); G(e, data_retries); G(e, xchannel); G(e, mcs); break; }
        case PDU::RAW: { const RawPDU& e = static_cast<const RawPDU&>(p); G(e, payload_size); sink(e.payload()); break; }
        default: break;
    }
    // 802.11 family
    if (const Dot11* d = dynamic_cast<const Dot11*>(&p)) {
        G(*d, protocol); G(*d, type); G(*d, subtype); G(*d, to_ds); G(*d, from_ds); G(*d, more_frag); G(*d, retry); G(*d, power_mgmt); G(*d, wep); G(*d, order); G(*d, duration_id); G(*d, addr1); walk_options(d->options(), c);
        if (const Dot11ManagementFrame* m = dynamic_cast<const Dot11ManagementFrame*>(d)) mgmt(*m, c);
        if (const Dot11Data* x = dynamic_cast<const Dot11Data*>(d)) { G(*x, addr2); G(*x, addr3); G(*x, addr4); G(*x, frag_num); G(*x, seq_num); G(*x, src_addr); G(*x, dst_addr); G(*x, bssid_addr); }
        if (const Dot11QoSData* q = dynamic_cast<const Dot11QoSData*>(d)) G(*q, qos_control);
        if (const Dot11Beacon* b = dynamic_cast<const Dot11Beacon*>(d)) { G(*b, timestamp); G(*b, interval); ++c.calls; sink(b->capabilities().ess()); }
        if (const Dot11ProbeResponse* b = dynamic_cast<const Dot11ProbeResponse*>(d)) { G(*b, timestamp); G(*b, interval); }
        if (const Dot11AssocRequest* b = dynamic_cast<const Dot11AssocRequest*>(d)) G(*b, listen_interval);
        if (const Dot11AssocResponse* b = dynamic_cast<const Dot11AssocResponse*>(d)) { G(*b, status_code); G(*b, aid); }
        if (const Dot11ReAssocRequest* b = dynamic_cast<const Dot11ReAssocRequest*>(d)) { G(*b, listen_interval); G(*b, current_ap); }
        if (const Dot11Authentication* b = dynamic_cast<const Dot11Authentication*>(d)) { G(*b, auth_algorithm); G(*b, auth_seq_number); G(*b, status_code); }
        if (const Dot11Deauthentication* b = dynamic_cast<const Dot11Deauthentication*>(d)) G(*b, reason_code);
        if (const Dot11Disassoc* b = dynamic_cast<const Dot11Disassoc*>(d)) G(*b, reason_code);
        if (const Dot11ControlTA* b = dynamic_cast<const Dot11ControlTA*>(d)) G(*b, target_addr);
        if (const Dot11BlockAckRequest* b = dynamic_cast<const Dot11BlockAckRequest*>(d)) { G(*b, bar_control); G(*b, start_sequence); G(*b, fragment_number); }
        if (const Dot11BlockAck* b = dynamic_cast<const Dot11BlockAck*>(d)) { G(*b, bar_control); G(*b, start_sequence); G(*b, fragment_number); ++c.calls; for (size_t i = 0; i < Dot11BlockAck::bitmap_size; ++i) { volatile uint8_t v = b->bitmap()[i]; (void)v; } }
    }
}

// application payload decoders, as the shipped examples do
inline void app(const PDU& top, Counters& c) {
    const RawPDU* raw = top.find_pdu<RawPDU>(); if (!raw) return;
    uint16_t sp = 0, dp = 0; bool udp = false, tcp = false;
    if (const UDP* u = top.find_pdu<UDP>()) { sp = u->sport(); dp = u->dport(); udp = true; } else if (const TCP* t = top.find_pdu<TCP>()) { sp = t->sport(); dp = t->dport(); tcp = true; }
    if (!udp && !tcp) return;
    auto try_as = [&](int what) { ++c.app_decodes; ++c.calls; try {
            if (what == 0) { DNS d = raw->to<DNS>(); dns(d, c); std::unique_ptr<PDU> cl(d.clone()); }
            else if (what == 1) { DHCP d = raw->to<DHCP>(); dhcp(d, c); }
            else if (what == 2) { DHCPv6 d = raw->to<DHCPv6>(); dhcpv6(d, c); }
            else if (what == 3) { VXLAN v = raw->to<VXLAN>(); G(v, get_flags); G(v, get_vni); for (const PDU* q = v.inner_pdu(); q; q = q->inner_pdu()) layer(*q, c); }
            else if (what == 4) { RTP r = raw->to<RTP>(); G(r, version); G(r, padding_bit); G(r, extension_bit); G(r, csrc_count); G(r, marker_bit); G(r, payload_type); G(r, sequence_number); G(r, timestamp); G(r, ssrc_id); G(r, csrc_ids); G(r, padding_size); G(r, extension_profile); G(r, extension_length); G(r, extension_data); }
        } catch (Tins::exception_base&) { ++c.tins_exc; } };
    if (sp == 53 || dp == 53 || sp == 5353 || dp == 5353) try_as(0);
    if (udp && (sp == 67 || sp == 68 || dp == 67 || dp == 68)) try_as(1);
    if (udp && (sp == 546 || sp == 547 || dp == 546 || dp == 547)) try_as(2);
    if (udp && (dp == 4789 || sp == 4789)) try_as(3);
    if (udp && sp >= 8000 && dp >= 8000 && !(sp & 1) && !(dp & 1)) try_as(4);
}

// everything the property lists for an accepted packet; throws only what the accessors let escape that is NOT a libtins exception
inline void packet(const PDU& top, Counters& c) {
    for (const PDU* q = &top; q; q = q->inner_pdu()) layer(*q, c);
    app(top, c);
    ++c.calls; std::unique_ptr<PDU> cl(top.clone());
    for (const PDU* q = cl.get(); q; q = q->inner_pdu()) { GV(*q, header_size); GV(*q, pdu_type); }
    ++c.calls; (void)top.find_pdu<IP>(); (void)top.find_pdu<TCP>(); (void)top.find_pdu<RawPDU>();
}
#undef G
#undef GV
} // namespace inspect
