// Traffic generator shared by the disk, wire, own and thr engines (pure model code, no libtins).
// Sources: (a) layer-level byte arrays copied once from the repository's tests (sim/fixtures/classified.txt,
// classified by layer), wrapped into complete frames by the independent encoder; (b) frames built from scratch
// with sim/codec with random field values, options, nesting. Output: a complete frame for a given DLT.
#pragma once
#include "kernel.hpp"
#include "codec.hpp"
#include <fstream>

namespace gen {
using namespace sim; using namespace codec;

enum { DLT_NULL_ = 0, DLT_EN10MB_ = 1, DLT_RAW_ = 12, DLT_IEEE802_11_ = 105, DLT_LINUX_SLL_ = 113, DLT_IEEE802_11_RADIO_ = 127, DLT_PPI_ = 192, DLT_PKTAP_ = 258 };
// LINKTYPE value stored in a savefile for a DLT
inline uint32_t linktype_of(int dlt) { return dlt == DLT_RAW_ ? 101 : (uint32_t)dlt; }

struct Fixtures {
    std::map<std::string, std::vector<std::pair<std::string, Bytes> > > by;
    static Fixtures& get() {
        static Fixtures f; static bool loaded = false;
        if (!loaded) {
            loaded = true; std::ifstream in("/verif/sim/fixtures/classified.txt"); std::string lvl, name, hx;
            while (in >> lvl >> name >> hx) f.by[lvl].push_back(std::make_pair(name, unhex(hx)));
        }
        return f;
    }
    bool has(const std::string& l) const { auto it = by.find(l); return it != by.end() && !it->second.empty(); }
    const std::pair<std::string, Bytes>& pick(const std::string& l, Rng& r) const { const auto& v = by.find(l)->second; return v[r.below(v.size())]; }
};

struct Frame { Bytes bytes; std::string desc; };

inline Addr rnd4(Rng& r) { return Addr::v4((uint8_t)r.pick(std::vector<int>{10, 192, 172, 8}), (uint8_t)r.next(), (uint8_t)r.next(), (uint8_t)r.range(1, 254)); }
inline Addr rnd6(Rng& r) { uint8_t b[16]; for (int i = 0; i < 16; ++i) b[i] = (uint8_t)r.next(); b[0] = 0x20; b[1] = 0x01; return Addr::v6(b); }


// bytes biased to small / boundary values (lengths, counts, pad sizes inside option bodies)
inline Bytes biased_bytes(Rng& r, size_t n) { Bytes b(n); for (size_t i = 0; i < n; ++i) { int k = (int)r.below(10); b[i] = k < 4 ? (uint8_t)r.below(9) : k == 4 ? 0xff : k == 5 ? (uint8_t)n : k == 6 ? (uint8_t)(n - i) : (uint8_t)r.next(); } return b; }
// ICMPv6 neighbour discovery message with a list of options of any type and random bodies (lengths consistent)
inline Bytes icmp6_nd(Rng& r, const Addr& s, const Addr& d) {
    int type = (int)r.pick(std::vector<int>{133, 134, 135, 136, 137, 133, 136}); Bytes b; b.push_back((uint8_t)type); b.push_back(0); put16(b, 0);
    if (type == 133) put32(b, 0); else if (type == 134) { b.push_back((uint8_t)r.next()); b.push_back((uint8_t)r.next()); put16(b, (uint16_t)r.next()); put32(b, (uint32_t)r.next()); put32(b, (uint32_t)r.next()); }
    else if (type == 135 || type == 136) { put32(b, (uint32_t)r.next() & 0xe0000000u); putb(b, rnd6(r).b, 16); } else { put32(b, 0); putb(b, rnd6(r).b, 16); putb(b, rnd6(r).b, 16); }
    int n = (int)r.small(0, 5);
    for (int i = 0; i < n; ++i) { int t = r.chance(0.8) ? (int)r.pick(std::vector<int>{1, 2, 3, 4, 5, 6, 7, 8, 9, 10, 11, 12, 13, 14, 15, 16, 17, 18, 19, 20, 21, 22, 23, 24, 25, 26, 27, 28, 29, 30, 31, 32}) : (int)r.below(256); size_t units = (size_t)r.range(1, 5); b.push_back((uint8_t)t); b.push_back((uint8_t)units); putb(b, biased_bytes(r, units * 8 - 2)); }
    set16(b, 2, csum_fin(csum_add(pseudo_acc(s, d, 58, b.size()), b.data(), b.size()))); return b;
}
// MLDv2 listener report (ICMPv6 type 143): records with source lists and auxiliary data, as multicast routers see them
inline Bytes icmp6_mld2(Rng& r, const Addr& s, const Addr& d) {
    Bytes b; b.push_back(143); b.push_back(0); put16(b, 0); put16(b, 0); int nrec = (int)r.small(0, 4); put16(b, (uint16_t)nrec);
    for (int i = 0; i < nrec; ++i) { int nsrc = (int)r.small(0, 3), aux = r.chance(0.5) ? (int)r.small(0, 3) : 0; b.push_back((uint8_t)r.range(1, 6)); b.push_back((uint8_t)aux); put16(b, (uint16_t)nsrc); Addr g = rnd6(r); g.b[0] = 0xff; g.b[1] = 0x02; putb(b, g.b, 16); for (int k = 0; k < nsrc; ++k) putb(b, rnd6(r).b, 16); putb(b, r.bytes((size_t)aux * 4)); }
    set16(b, 2, csum_fin(csum_add(pseudo_acc(s, d, 58, b.size()), b.data(), b.size()))); return b;
}
inline Bytes dhcp_random(Rng& r) {
    Bytes b; b.push_back(r.chance(0.5) ? 1 : 2); b.push_back(1); b.push_back(6); b.push_back(0); put32(b, (uint32_t)r.next()); put16(b, 0); put16(b, r.chance(0.5) ? 0x8000 : 0); for (int i = 0; i < 4; ++i) put32(b, (uint32_t)r.next()); putb(b, r.bytes(16)); b.resize(b.size() + 64 + 128, 0); put32(b, 0x63825363);
    int n = (int)r.small(0, 10); for (int i = 0; i < n; ++i) { int code = r.chance(0.8) ? (int)r.pick(std::vector<int>{1, 3, 6, 12, 15, 28, 50, 51, 53, 54, 55, 58, 59, 60, 61, 81, 82}) : (int)r.range(1, 254); size_t l = (size_t)r.pick(std::vector<int>{0, 1, 2, 3, 4, 5, 7, 8, 12, 16, 30}); b.push_back((uint8_t)code); b.push_back((uint8_t)l); putb(b, biased_bytes(r, l)); }
    if (r.chance(0.8)) b.push_back(255); return b;
}
inline Bytes dhcpv6_random(Rng& r) {
    Bytes b; bool relay = r.chance(0.15); if (relay) { b.push_back(r.chance(0.5) ? 12 : 13); b.push_back((uint8_t)r.below(10)); putb(b, rnd6(r).b, 16); putb(b, rnd6(r).b, 16); } else { b.push_back((uint8_t)r.range(1, 11)); b.push_back((uint8_t)r.next()); put16(b, (uint16_t)r.next()); }
    int n = (int)r.small(0, 8); for (int i = 0; i < n; ++i) { int code = r.chance(0.85) ? (int)r.range(1, 20) : (int)r.range(0, 70); size_t l = (size_t)r.pick(std::vector<int>{0, 1, 2, 3, 4, 6, 8, 10, 12, 14, 16, 18, 24, 26, 40}); put16(b, (uint16_t)code); put16(b, (uint16_t)l); putb(b, biased_bytes(r, l)); } return b;
}
inline Bytes dot11_mgmt_random(Rng& r) {
    int sub = (int)r.pick(std::vector<int>{8, 5, 4, 0, 1, 2, 3, 11, 12, 10}); Bytes f; f.push_back((uint8_t)(sub << 4)); f.push_back(0); put16(f, (uint16_t)r.next()); for (int i = 0; i < 3; ++i) { Mac m = Mac::of((uint8_t)r.range(1, 9)); putb(f, m.b, 6); } put16(f, (uint16_t)(r.next() & 0xfff0));
    size_t fixed = sub == 8 || sub == 5 ? 12 : sub == 0 ? 4 : sub == 1 || sub == 3 ? 6 : sub == 2 ? 10 : sub == 11 ? 6 : sub == 4 ? 0 : 2; putb(f, r.bytes(fixed));
    int n = (int)r.small(0, 10); for (int i = 0; i < n; ++i) { int id = r.chance(0.85) ? (int)r.pick(std::vector<int>{0, 1, 2, 3, 4, 5, 6, 7, 8, 9, 10, 11, 16, 32, 33, 35, 36, 37, 40, 42, 46, 48, 50, 221}) : (int)r.below(256); size_t l = (size_t)r.pick(std::vector<int>{0, 1, 2, 3, 4, 5, 6, 8, 12, 20, 24, 32}); f.push_back((uint8_t)id); f.push_back((uint8_t)l); putb(f, biased_bytes(r, l)); } return f;
}
inline Bytes pppoe_random(Rng& r, bool& session) {
    session = r.chance(0.3); Bytes b; b.push_back(0x11); b.push_back(session ? 0 : (uint8_t)r.pick(std::vector<int>{0x09, 0x07, 0x19, 0x65, 0xa7})); put16(b, (uint16_t)r.next()); Bytes pl;
    if (session) { put16(pl, 0x0021); putb(pl, r.bytes((size_t)r.small(0, 60))); } else { int n = (int)r.small(0, 8); for (int i = 0; i < n; ++i) { int t = (int)r.pick(std::vector<int>{0x0101, 0x0102, 0x0103, 0x0104, 0x0105, 0x0110, 0x0201, 0x0202, 0x0203, 0x0000}); size_t l = (size_t)r.pick(std::vector<int>{0, 1, 3, 4, 5, 8, 20}); put16(pl, (uint16_t)t); put16(pl, (uint16_t)l); putb(pl, biased_bytes(r, l)); } }
    put16(b, (uint16_t)pl.size()); putb(b, pl); return b;
}

// ---- L4 and above, returns payload + IP protocol number
inline Bytes l4_random(Rng& r, const Addr& s, const Addr& d, uint8_t& proto, std::string& desc) {
    const Fixtures& fx = Fixtures::get();
    if (s.is6() && r.chance(0.2)) { proto = 58; desc += "/icmpv6-nd"; return icmp6_nd(r, s, d); }
    if (s.is6() && r.chance(0.12)) { proto = 58; desc += "/icmpv6-mld2"; return icmp6_mld2(r, s, d); }
    int k = (int)r.below(s.is6() ? 9 : 12);
    switch (k) {
        case 0: { proto = 6; TcpSeg t; t.sport = (uint16_t)r.next(); t.dport = (uint16_t)r.next(); t.seq = (uint32_t)r.next(); t.ack = (uint32_t)r.next(); t.flags = (uint8_t)r.next() & 0x3f; t.win = (uint16_t)r.next();
                  if (r.chance(0.5)) t.opt_mss((uint16_t)r.next()); if (r.chance(0.3)) t.opt_sack_permitted(); if (r.chance(0.3)) t.opt_timestamp((uint32_t)r.next(), (uint32_t)r.next());
                  if (r.chance(0.3)) { std::vector<std::pair<uint32_t, uint32_t> > b; int n = (int)r.range(1, 3); for (int i = 0; i < n; ++i) b.push_back(std::make_pair((uint32_t)r.next(), (uint32_t)r.next())); if (t.options.size() + 2 + 2 + 8 * b.size() <= 40) t.opt_sack(b); }
                  if (r.chance(0.2)) { t.options.push_back(3); t.options.push_back(3); t.options.push_back((uint8_t)r.range(0, 14)); }
                  if (r.chance(0.15)) { int kind = (int)r.range(6, 34); size_t l = (size_t)r.range(0, 6); if (t.options.size() + 2 + l <= 40) { t.options.push_back((uint8_t)kind); t.options.push_back((uint8_t)(2 + l)); putb(t.options, biased_bytes(r, l)); } }
                  t.payload = r.bytes((size_t)r.small(0, 200)); desc += "/tcp"; return tcp_bytes(t, s, d); }
        case 1: { proto = 17; desc += "/udp"; return udp_bytes((uint16_t)r.range(1024, 65535), (uint16_t)r.range(1024, 65535), r.bytes((size_t)r.small(0, 200)), s, d); }
        case 2: { proto = 17; desc += "/udp/dns"; Bytes dns = fx.has("dns") && r.chance(0.6) ? fx.pick("dns", r).second : dns_bytes((uint16_t)r.next(), r.chance(0.5), r.chance(0.5) ? "www.example.com" : "a.b.c.d.e", r.chance(0.5)); bool q = r.chance(0.5); return udp_bytes(q ? (uint16_t)r.range(1024, 65535) : 53, q ? 53 : (uint16_t)r.range(1024, 65535), dns, s, d); }
        case 3: { proto = 17; desc += "/udp/rtp"; Bytes rtp = fx.has("rtp") ? fx.pick("rtp", r).second : r.bytes(12); if (!rtp.empty()) rtp[0] = (rtp[0] & 0x3f) | 0x80; return udp_bytes((uint16_t)(r.range(8000, 30000) & ~1), (uint16_t)(r.range(8000, 30000) & ~1), rtp, s, d); }
        case 4: { proto = 17; desc += "/udp/vxlan"; Bytes v; put32(v, 0x08000000); put32(v, ((uint32_t)r.next() & 0xffffff) << 8); Bytes inner = eth_bytes(Mac::of(1), Mac::of(2), 0x0800, ip4_bytes(Ip4Hdr(), r.bytes(20)), false); putb(v, inner); return udp_bytes((uint16_t)r.range(1024, 65535), 4789, v, s, d); }
        case 5: if (s.is6()) { proto = 17; desc += "/udp/dhcpv6"; Bytes p = fx.has("dhcpv6") && r.chance(0.3) ? fx.pick("dhcpv6", r).second : dhcpv6_random(r); bool c = r.chance(0.5); return udp_bytes(c ? 546 : 547, c ? 547 : 546, p, s, d); }
                else { proto = 17; desc += "/udp/dhcp"; Bytes p = fx.has("dhcp") && r.chance(0.3) ? fx.pick("dhcp", r).second : dhcp_random(r); bool c = r.chance(0.5); return udp_bytes(c ? 68 : 67, c ? 67 : 68, p, s, d); }
        case 6: if (s.is6()) { proto = 58; desc += "/icmpv6"; if (r.chance(0.5)) { desc += "-nd"; return icmp6_nd(r, s, d); } Bytes p = fx.has("icmpv6") && r.chance(0.7) ? fx.pick("icmpv6", r).second : icmp6_bytes(r.chance(0.5) ? 128 : 129, 0, (uint16_t)r.next(), (uint16_t)r.next(), r.bytes((size_t)r.small(0, 64)), s, d); return p; }
                else { proto = 1; desc += "/icmp"; Bytes p = fx.has("icmp") && r.chance(0.6) ? fx.pick("icmp", r).second : icmp_bytes((uint8_t)r.pick(std::vector<int>{0, 8, 13, 14, 17, 18}), 0, (uint16_t)r.next(), (uint16_t)r.next(), r.bytes((size_t)r.small(0, 64))); return p; }
        case 7: { if (fx.has("tcp")) { proto = 6; desc += "/tcp(fix)"; return fx.pick("tcp", r).second; } proto = 253; return r.bytes(8); }
        case 8: { if (fx.has("udp")) { proto = 17; desc += "/udp(fix)"; return fx.pick("udp", r).second; } proto = 253; return r.bytes(8); }
        case 9: { proto = 1; desc += "/icmp-quote"; Ip4Hdr q; q.src = s; q.dst = rnd4(r); q.proto = 17; q.id = (uint16_t)r.next(); Bytes quoted = ip4_bytes(q, r.bytes(8)); return icmp_bytes(r.chance(0.5) ? 3 : 11, (uint8_t)r.range(0, 3), 0, 0, quoted); }
        case 10: { proto = 4; desc += "/ipip"; uint8_t p2 = 0; std::string d2; Addr a = rnd4(r), b = rnd4(r); Bytes in = l4_random(r, a, b, p2, d2); desc += d2; Ip4Hdr h; h.src = a; h.dst = b; h.proto = p2; return ip4_bytes(h, in); }
        default: { proto = (uint8_t)r.pick(std::vector<int>{50, 51, 47, 253, 2, 89, 132}); desc += fmt("/proto%u", proto); if (proto == 51) { Bytes ah; ah.push_back(59); ah.push_back(4); put16(ah, 0); put32(ah, (uint32_t)r.next()); put32(ah, (uint32_t)r.next()); putb(ah, r.bytes(12)); return ah; } return r.bytes((size_t)r.small(8, 100)); }
    }
}

inline Bytes ip_random(Rng& r, bool v6, std::string& desc) {
    if (!v6) {
        Ip4Hdr h; h.src = rnd4(r); h.dst = rnd4(r); h.ttl = (uint8_t)r.next(); h.tos = (uint8_t)r.next(); h.id = (uint16_t)r.next(); h.df = r.chance(0.5);
        if (r.chance(0.25)) { int kind = (int)r.below(4);
            if (kind == 0) { size_t n = (size_t)r.range(1, 9); h.options.push_back(7); h.options.push_back((uint8_t)(3 + 4 * n)); h.options.push_back(4); putb(h.options, r.bytes(4 * n)); }
            else if (kind == 1) { h.options.push_back(0x88); h.options.push_back(4); put16(h.options, (uint16_t)r.next()); }
            else if (kind == 2) { for (int i = 0; i < 4; ++i) h.options.push_back(1); }
            else { h.options.push_back(0x82); h.options.push_back(11); putb(h.options, r.bytes(9)); h.options.push_back(1); } }
        uint8_t proto = 0; desc += "ip"; Bytes l4 = l4_random(r, h.src, h.dst, proto, desc); h.proto = proto;
        if (r.chance(0.1)) { h.mf = r.chance(0.5); h.frag_off8 = (uint16_t)r.range(h.mf ? 0 : 1, 100); h.df = false; desc += "(frag)"; }
        return ip4_bytes(h, l4);
    }
    Addr s = rnd6(r), d = rnd6(r); uint8_t proto = 0; desc += "ipv6"; Bytes l4 = l4_random(r, s, d, proto, desc);
    // extension header chain in front of the upper layer
    int next = proto; Bytes chain; int n = r.chance(0.3) ? (int)r.range(1, 3) : 0; std::vector<int> kinds; for (int i = 0; i < n; ++i) kinds.push_back((int)r.pick(std::vector<int>{0, 60, 43, 44}));
    for (int i = n - 1; i >= 0; --i) { Bytes e; int k = kinds[i];
        if (k == 44) { e.push_back((uint8_t)next); e.push_back(0); put16(e, 0); put32(e, (uint32_t)r.next()); }
        else { size_t units = (size_t)r.range(0, 2); e.push_back((uint8_t)next); e.push_back((uint8_t)units); size_t body = 6 + 8 * units; if (k == 43) { e.push_back(0); e.push_back(0); body -= 2; } while (body >= 2) { size_t l = std::min<size_t>(body - 2, (size_t)r.range(0, 6)); e.push_back(1); e.push_back((uint8_t)l); for (size_t j = 0; j < l; ++j) e.push_back(0); body -= 2 + l; } if (body) e.push_back(0); }
        e.insert(e.end(), chain.begin(), chain.end()); chain.swap(e); next = k; desc += fmt("+ext%d", k); }
    putb(chain, l4);
    return ip6_bytes(s, d, (uint8_t)next, chain, (uint8_t)r.next());
}

inline Bytes dot11_random(Rng& r, std::string& desc) {
    const Fixtures& fx = Fixtures::get();
    if (fx.has("dot11") && r.chance(0.4)) { auto& p = fx.pick("dot11", r); desc += "dot11(" + p.first + ")"; return p.second; }
    if (r.chance(0.4)) { desc += "dot11-mgmt-random"; return dot11_mgmt_random(r); }
    // data frame (optionally QoS) + LLC/SNAP + IP
    Bytes f; bool qos = r.chance(0.5); int ds = (int)r.below(4); f.push_back(qos ? 0x88 : 0x08); f.push_back((uint8_t)ds | (r.chance(0.1) ? 0x08 : 0)); put16(f, (uint16_t)r.next());
    for (int i = 0; i < 3; ++i) { Mac m = Mac::of((uint8_t)r.range(1, 9)); putb(f, m.b, 6); } put16(f, (uint16_t)(r.next() & 0xfff0));
    if (ds == 3) { Mac m = Mac::of(10); putb(f, m.b, 6); } if (qos) put16(f, (uint16_t)(r.next() & 0x000f));
    const uint8_t snap[6] = { 0xaa, 0xaa, 0x03, 0, 0, 0 }; putb(f, snap, 6); bool v6 = r.chance(0.3); put16(f, v6 ? 0x86dd : 0x0800); desc += "dot11-data/snap/"; putb(f, ip_random(r, v6, desc)); return f;
}

// One complete, well-formed frame for the given DLT
inline Frame frame_for(Rng& r, int dlt) {
    const Fixtures& fx = Fixtures::get(); Frame out; std::string& d = out.desc; Bytes& b = out.bytes;
    auto l3 = [&](bool v6) { return ip_random(r, v6, d); };
    switch (dlt) {
        case DLT_EN10MB_: {
            int k = (int)r.below(14);
            if (k <= 1 && fx.has("eth")) { auto& p = fx.pick("eth", r); d = "eth(" + p.first + ")"; b = p.second; }
            else if (k == 2 && fx.has("dot3")) { auto& p = fx.pick("dot3", r); d = "dot3(" + p.first + ")"; b = p.second; }
            else if (k == 3) { const char* lv = r.chance(0.5) ? "stp" : (r.chance(0.5) ? "llc" : "snap"); Bytes pl = fx.has(lv) ? fx.pick(lv, r).second : r.bytes(10); if (std::string(lv) == "stp") { Bytes l; l.push_back(0x42); l.push_back(0x42); l.push_back(3); putb(l, pl); pl = l; } d = std::string("dot3/") + lv; b = eth_bytes(Mac::of(1), Mac::of(2), (uint16_t)pl.size(), pl, r.chance(0.5)); }
            else if (k == 4) { Bytes pl = fx.has("arp") ? fx.pick("arp", r).second : r.bytes(28); d = "eth/arp"; b = eth_bytes(Mac::of(0xff), Mac::of(2), 0x0806, pl); }
            else if (k == 5) { bool sess = false; Bytes pl = r.chance(0.6) ? pppoe_random(r, sess) : (fx.has("pppoe") ? fx.pick("pppoe", r).second : r.bytes(6)); d = "eth/pppoe"; b = eth_bytes(Mac::of(1), Mac::of(2), pl.size() > 1 && pl[1] == 0 ? 0x8864 : 0x8863, pl); }
            else if (k == 6) { d = "eth/mpls/"; Bytes m; int n = (int)r.range(1, 3); for (int i = 0; i < n; ++i) { uint32_t lab = ((uint32_t)r.next() & 0xfffff) << 12 | ((uint32_t)r.range(0, 7) << 9) | (i == n - 1 ? 0x100 : 0) | (uint32_t)r.range(1, 255); put32(m, lab); } putb(m, l3(false)); b = eth_bytes(Mac::of(1), Mac::of(2), 0x8847, m); }
            else if (k == 7) { d = "eth/eapol"; Bytes pl = fx.has("rsneapol") ? fx.pick("rsneapol", r).second : r.bytes(99); b = eth_bytes(Mac::of(1), Mac::of(2), 0x888e, pl); }
            else if (k == 8) { d = "eth/dot1q/"; bool v6 = r.chance(0.3); Bytes p = l3(v6); b = eth_vlan_bytes(Mac::of(1), Mac::of(2), (uint16_t)r.next(), v6 ? 0x86dd : 0x0800, p, r.chance(0.5)); }
            else if (k == 9) { d = "eth/qinq/"; bool v6 = r.chance(0.3); Bytes p = l3(v6); Mac m1 = Mac::of(1), m2 = Mac::of(2); putb(b, m1.b, 6); putb(b, m2.b, 6); put16(b, 0x88a8); put16(b, (uint16_t)r.next()); put16(b, 0x8100); put16(b, (uint16_t)r.next()); put16(b, v6 ? 0x86dd : 0x0800); putb(b, p); }
            else { bool v6 = r.chance(0.3); d = "eth/"; Bytes p = l3(v6); b = eth_bytes(Mac::of((uint8_t)r.range(1, 9)), Mac::of((uint8_t)r.range(1, 9)), v6 ? 0x86dd : 0x0800, p, r.chance(0.7)); }
            break; }
        case DLT_RAW_: { bool v6 = r.chance(0.3); d = "raw/"; b = l3(v6); break; }
        case DLT_NULL_: { bool v6 = r.chance(0.3); d = "null/"; uint32_t fam = v6 ? (uint32_t)r.pick(std::vector<int>{10, 24, 28, 30}) : 2; b.push_back(fam & 0xff); b.push_back(0); b.push_back(0); b.push_back(0); putb(b, l3(v6)); break; }
        case DLT_LINUX_SLL_: { if (fx.has("sll") && r.chance(0.2)) { b = fx.pick("sll", r).second; d = "sll(fix)"; break; } bool v6 = r.chance(0.3); d = "sll/"; put16(b, (uint16_t)r.range(0, 4)); put16(b, 1); put16(b, 6); Mac m = Mac::of(3); putb(b, m.b, 6); put16(b, 0); put16(b, v6 ? 0x86dd : 0x0800); putb(b, l3(v6)); break; }
        case DLT_IEEE802_11_: { b = dot11_random(r, d); break; }
        case DLT_IEEE802_11_RADIO_: {
            if (fx.has("radiotap") && r.chance(0.5)) { auto& p = fx.pick("radiotap", r); b = p.second; d = "radiotap(" + p.first + ")"; break; }
            // header: version 0, pad 0, len LE, present LE; fields: flags(1) rate(1) channel(2+2) in natural alignment
            bool with = r.chance(0.7); Bytes h; h.push_back(0); h.push_back(0); if (with) { put16(h, 0); uint32_t present = 0x0e; h.push_back(present & 0xff); h.push_back(0); h.push_back(0); h.push_back(0); h.push_back(0); h.push_back((uint8_t)r.range(2, 108)); uint16_t freq = (uint16_t)r.range(2412, 5825); h.push_back(freq & 0xff); h.push_back(freq >> 8); h.push_back(0xa0); h.push_back(0); h[2] = (uint8_t)h.size(); h[3] = 0; }
            else { h.push_back(8); h.push_back(0); put32(h, 0); }
            d = "radiotap/"; b = h; putb(b, dot11_random(r, d)); break; }
        case DLT_PPI_: { if (fx.has("ppi") && r.chance(0.4)) { auto& p = fx.pick("ppi", r); b = p.second; d = "ppi(" + p.first + ")"; break; }
            bool eth = r.chance(0.4); b.push_back(0); b.push_back(0); b.push_back(8); b.push_back(0); uint32_t dl = eth ? 1 : 105; b.push_back(dl & 0xff); b.push_back(0); b.push_back(0); b.push_back(0); d = "ppi/";
            if (eth) { Frame f = frame_for(r, DLT_EN10MB_); d += f.desc; putb(b, f.bytes); } else putb(b, dot11_random(r, d)); break; }
        case DLT_PKTAP_: { if (fx.has("pktap")) { b = fx.pick("pktap", r).second; d = "pktap(fix)"; } else b = r.bytes(120); break; }
        default: b = r.bytes(60); d = "random";
    }
    return out;
}

// ---- faults a wire or a disk can apply to a frame; returns a description
inline std::string corrupt(Rng& r, Bytes& b) {
    if (b.empty()) { b.push_back((uint8_t)r.next()); return "grow-from-empty"; }
    int k = (int)r.below(10);
    switch (k) {
        case 9: { size_t n = (size_t)r.range(1, (int64_t)std::min<size_t>(b.size(), 16)); b.resize(b.size() - n); return fmt("truncate-tail-%zu", n); }      /* the last field(s) missing: what trailing-length checks are for */
        case 0: { int n = (int)r.range(1, 3); for (int i = 0; i < n; ++i) { size_t p = r.chance(0.6) ? r.below(std::min<size_t>(b.size(), 64)) : r.below(b.size()); b[p] ^= (uint8_t)(1u << r.below(8)); } return fmt("bitflip x%d", n); }
        case 1: { size_t p = r.chance(0.6) ? r.below(std::min<size_t>(b.size(), 64)) : r.below(b.size()); const uint8_t vals[6] = { 0, 1, 0x7f, 0x80, 0xff, 0xfe }; b[p] = vals[r.below(6)]; return fmt("byte@%zu=boundary", p); }
        case 2: { size_t n = r.below(b.size()); b.resize(n); return fmt("truncate->%zu", n); }
        case 3: { size_t n = (size_t)r.small(0, (int64_t)std::min<size_t>(b.size(), 80)); b.resize(n); return fmt("truncate-early->%zu", n); }
        case 4: { size_t n = (size_t)r.range(1, 40); Bytes j = r.bytes(n); putb(b, j); return fmt("junk+%zu", n); }
        case 5: { size_t n = std::min<size_t>(b.size(), (size_t)r.range(1, 30)); Bytes t(b.end() - n, b.end()); putb(b, t); return fmt("dup-tail %zu", n); }
        case 6: { size_t p = r.below(b.size()); size_t n = std::min<size_t>(b.size() - p, (size_t)r.range(1, 8)); for (size_t i = 0; i < n; ++i) b[p + i] = (uint8_t)r.next(); return fmt("overwrite@%zu+%zu", p, n); }
        case 7: { if (b.size() >= 2) { size_t p = r.below(b.size() - 1); b[p] = 0xff; b[p + 1] = 0xff; return fmt("ffff@%zu", p); } b[0] = 0xff; return "ff@0"; }
        default: { size_t n = b.size(); b = r.bytes(n); return "garbage"; }
    }
}

} // namespace gen
