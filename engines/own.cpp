// Engine `own`: C12 - ownership of packet object trees under copy/move/clone/re-linking, with allocation faults.
// Real code: PDU copy/move/clone/inner_pdu/release_inner_pdu/operator/ and /=, every concrete layer class's
// copy/move constructors and assignments, PDUOption, Packet/PtrPacket. Stub: global operator new/delete
// (ledger of live SUT allocations + failure injection at the n-th allocation inside an op).
#include "kernel.hpp"
#include "codec.hpp"
#include "gen.hpp"
#include <tins/tins.h>
#include <tins/pktap.h>
#include <tins/loopback.h>
#include <tins/detail/pdu_helpers.h>
#include <memory>
#include <new>

using namespace sim; using namespace codec;

extern "C" __attribute__((used)) const char* __asan_default_options() { return "exitcode=77:detect_leaks=0:abort_on_error=0:allocator_may_return_null=1:alloc_dealloc_mismatch=0:new_delete_type_mismatch=0"; }
extern "C" __attribute__((used)) const char* __ubsan_default_options() { return "print_stacktrace=1:halt_on_error=1"; }

#include "ledger.hpp"

// ============================================================================ typed operations over the concrete classes
#define CLASS_LIST(X) \
    X(EthernetII, ETHERNET_II) X(Dot3, IEEE802_3) X(Dot1Q, DOT1Q) X(IP, IP) X(IPv6, IPv6) X(TCP, TCP) X(UDP, UDP) X(ICMP, ICMP) X(ICMPv6, ICMPv6) \
    X(ARP, ARP) X(DNS, DNS) X(DHCP, DHCP) X(DHCPv6, DHCPv6) X(RawPDU, RAW) X(LLC, LLC) X(SNAP, SNAP) X(STP, STP) X(PPPoE, PPPOE) X(MPLS, MPLS) \
    X(SLL, SLL) X(Loopback, LOOPBACK) X(RadioTap, RADIOTAP) X(Dot11Data, DOT11_DATA) X(Dot11QoSData, DOT11_QOS_DATA) X(Dot11Beacon, DOT11_BEACON) \
    X(Dot11ProbeRequest, DOT11_PROBE_REQ) X(Dot11ProbeResponse, DOT11_PROBE_RESP) X(Dot11AssocRequest, DOT11_ASSOC_REQ) X(Dot11AssocResponse, DOT11_ASSOC_RESP) \
    X(Dot11Authentication, DOT11_AUTH) X(Dot11Deauthentication, DOT11_DEAUTH) X(Dot11Disassoc, DOT11_DIASSOC) X(Dot11ReAssocRequest, DOT11_REASSOC_REQ) \
    X(Dot11ReAssocResponse, DOT11_REASSOC_RESP) X(Dot11RTS, DOT11_RTS) X(Dot11Ack, DOT11_ACK) X(Dot11PSPoll, DOT11_PS_POLL) X(Dot11CFEnd, DOT11_CF_END) \
    X(Dot11EndCFAck, DOT11_END_CF_ACK) X(Dot11BlockAckRequest, DOT11_BLOCK_ACK_REQ) X(RSNEAPOL, RSNEAPOL) X(RC4EAPOL, RC4EAPOL) X(IPSecAH, IPSEC_AH) \
    X(IPSecESP, IPSEC_ESP) X(VXLAN, VXLAN) X(RTP, RTP) X(BootP, BOOTP) X(PPI, PPI)

using namespace Tins;
static PDU* typed_copy(const PDU* p) { switch (p->pdu_type()) {
#define X(C, T) case PDU::T: return new C(*static_cast<const C*>(p));
    CLASS_LIST(X)
#undef X
    default: return 0; } }
static PDU* typed_move(PDU* p) { switch (p->pdu_type()) {
#define X(C, T) case PDU::T: return new C(std::move(*static_cast<C*>(p)));
    CLASS_LIST(X)
#undef X
    default: return 0; } }
static bool typed_assign(PDU* d, const PDU* s) { if (d->pdu_type() != s->pdu_type()) return false; switch (d->pdu_type()) {
#define X(C, T) case PDU::T: *static_cast<C*>(d) = *static_cast<const C*>(s); return true;
    CLASS_LIST(X)
#undef X
    default: return false; } }
static bool typed_move_assign(PDU* d, PDU* s) { if (d->pdu_type() != s->pdu_type()) return false; switch (d->pdu_type()) {
#define X(C, T) case PDU::T: *static_cast<C*>(d) = std::move(*static_cast<C*>(s)); return true;
    CLASS_LIST(X)
#undef X
    default: return false; } }
static PDU* typed_div(const PDU* a, const PDU* b) { switch (a->pdu_type()) {
#define X(C, T) case PDU::T: return new C(*static_cast<const C*>(a) / *b);
    CLASS_LIST(X)
#undef X
    default: return 0; } }
static PDU* default_of(int k) { switch (k % 12) { case 0: return new EthernetII(); case 1: return new IP("10.0.0.2", "10.0.0.1"); case 2: return new TCP(80, 1234); case 3: return new UDP(53, 999); case 4: return new RawPDU("hello world, this is a payload"); case 5: return new ICMP();
    case 6: return new IPv6("::1", "::2"); case 7: return new Dot1Q(5); case 8: return new DNS(); case 9: return new ARP(); case 10: return new Dot11Data(); default: return new SNAP(); } }

static PDU* construct(int dlt, const Bytes& f) {
    const uint8_t* p = f.data(); uint32_t n = (uint32_t)f.size(); static const uint8_t z = 0; if (!p) p = &z;
    switch (dlt) {
        case gen::DLT_EN10MB_: if (Internals::is_dot3(p, n)) return new Dot3(p, n); return new EthernetII(p, n);
        case gen::DLT_NULL_: return new Loopback(p, n); case gen::DLT_LINUX_SLL_: return new SLL(p, n); case gen::DLT_PPI_: return new PPI(p, n);
        case gen::DLT_RAW_: if (n && (p[0] >> 4) == 4) return new IP(p, n); if (n && (p[0] >> 4) == 6) return new IPv6(p, n); return 0;
        case gen::DLT_IEEE802_11_RADIO_: return new RadioTap(p, n); case gen::DLT_IEEE802_11_: return Dot11::from_bytes(p, n); default: return 0; }
}

// ---- stateful holders of layers named by the property's anchors: legacy TCPStream (held out-of-order segments are RawPDU layers it
// owns), PDUCacher (owns a deep copy of a tree), IPv4Reassembler (owns the fragments' payload layers). Each op builds its objects,
// copies / assigns / destroys them and returns an error text; everything it allocated must be gone when it returns (ledger).
static std::string legacy_stream_op(int kind, uint32_t cisn, uint32_t sisn, uint64_t x) {
    const IPv4Address ca("10.0.0.1"), sa("10.0.0.2"); Bytes C(40), S(40); for (size_t i = 0; i < 40; ++i) { C[i] = (uint8_t)('a' + (i + x) % 26); S[i] = (uint8_t)('A' + (i * 3 + x) % 26); }
    auto feed = [&](TCPStream& st, bool from_client, size_t lo, size_t hi) { IP ip = from_client ? IP(sa, ca) : IP(ca, sa); TCP tcp(from_client ? 80 : 1234, from_client ? 1234 : 80); tcp.flags(TCP::ACK | TCP::PSH);
        tcp.seq((from_client ? cisn : sisn) + 1 + (uint32_t)lo); const Bytes& src = from_client ? C : S; tcp.inner_pdu(RawPDU(src.data() + lo, (uint32_t)(hi - lo))); ip.inner_pdu(tcp); st.update(&ip, ip.find_pdu<TCP>()); };
    auto open = [&](uint16_t cport) { IP syn = IP(sa, ca); TCP t(80, cport); t.flags(TCP::SYN); t.seq(cisn); syn.inner_pdu(t); TCPStream* st = new TCPStream(&syn, syn.find_pdu<TCP>(), cport);
        IP sy = IP(ca, sa); TCP t2(cport, 80); t2.flags(TCP::SYN | TCP::ACK); t2.seq(sisn); t2.ack_seq(cisn + 1); sy.inner_pdu(t2); st->update(&sy, sy.find_pdu<TCP>()); return st; };
    std::unique_ptr<TCPStream> st(open(1234)), c;
    feed(*st, true, 10, 20); feed(*st, true, 25, 30); feed(*st, false, 5, 15); feed(*st, false, 20, 40);      // all held: the first bytes are missing in both directions
    if (x & 4) { feed(*st, true, 10, 20); feed(*st, false, 20, 40); if (x & 8) feed(*st, true, 25, 30); }      // retransmissions of segments that are still held (same sequence number, same length)
    if (!st->client_payload().empty() || !st->server_payload().empty()) return "data delivered although the first bytes of the stream never arrived";
    if (kind == 0) c.reset(new TCPStream(*st));
    else if (kind == 1) { c.reset(open(1234)); *c = *st; }
    else if (kind == 2) { c.reset(open(1234)); feed(*c, true, 30, 40); feed(*c, false, 30, 35); feed(*c, false, 16, 18);
        if (x & 16) { std::unique_ptr<TCPStream> none(open(1234)); *c = *none; if (x & 32) { feed(*c, true, 30, 40); feed(*c, false, 16, 18); } }      // first assigned from a stream that holds nothing: the target's own segments must go (and only once)
        *c = *st; }      // the target holds segments of its own
    else { TCPStream& self = *st; *st = self; c.reset(new TCPStream(*st)); }
    TCPStream* both[2] = { st.get(), c.get() };
    for (int i = 0; i < 2; ++i) { TCPStream& t = *both[(i + x) % 2];
        if (x & 64) { feed(t, true, 0, 10); feed(t, true, 20, 40); }      // an in-order segment that covers a held one completely: the held copy must be released
        feed(t, true, 20, 25); feed(t, true, 0, 10); feed(t, false, 15, 20); feed(t, true, 30, 40); feed(t, false, 0, 5); }
    for (int i = 0; i < 2; ++i) { const char* who = i ? "copy" : "original";
        if (both[i]->client_payload() != C) return std::string("client payload of the ") + who + fmt(" holds %zu bytes / differs from the 40 sent", both[i]->client_payload().size());
        if (both[i]->server_payload() != S) return std::string("server payload of the ") + who + fmt(" holds %zu bytes / differs from the 40 sent", both[i]->server_payload().size()); }
    return "";
}
static std::string cacher_op(const PDU* root, const Bytes& want, int variant) {
    if (root->pdu_type() != PDU::ETHERNET_II && root->pdu_type() != PDU::IP) return "skip";
    std::unique_ptr<PDU> c1, c2; if (root->pdu_type() == PDU::IP) c1.reset(new PDUCacher<IP>(*static_cast<const IP*>(root))); else c1.reset(new PDUCacher<EthernetII>(*static_cast<const EthernetII*>(root)));
    if (variant & 1) { PDU::serialization_type s = c1->serialize(); if (Bytes(s.begin(), s.end()) != want) return "cacher serialization differs from the tree it was built from"; }
    c2.reset(c1->clone()); if (variant & 2) c1.reset();
    PDU::serialization_type s2 = c2->serialize(); if (Bytes(s2.begin(), s2.end()) != want) return "clone of the cacher serializes differently from the tree";
    if (c2->inner_pdu() || c2->parent_pdu()) return "cacher clone is linked to another layer";
    if (variant & 8) {      // a cacher that owns a layer below it: clones and copies carry that layer along
        c2->inner_pdu(RawPDU("below the cacher")); std::unique_ptr<PDU> c3(c2->clone());
        if (!c3->inner_pdu() || c3->inner_pdu()->pdu_type() != PDU::RAW || c3->inner_pdu()->parent_pdu() != c3.get()) return "clone of a cacher that owns a child layer lost that layer or links it wrongly";
        Packet pk(*c2); if (!pk.pdu() || !pk.pdu()->inner_pdu()) return "Packet built from a cacher that owns a child layer lost that layer";
        Packet pk2(pk); if (!pk2.pdu()->inner_pdu() || pk2.pdu()->inner_pdu() == pk.pdu()->inner_pdu()) return "copy of a Packet holding a cacher shares or loses the child layer";
        delete c2->release_inner_pdu(); }
    if (variant & 4) { EthernetII e; e.inner_pdu(c2.release()); if (e.inner_pdu()->parent_pdu() != &e) return "cacher stacked under a layer has a wrong parent link"; std::unique_ptr<PDU> e2(e.clone()); if (e2->inner_pdu()->parent_pdu() != e2.get()) return "clone of a tree holding a cacher has a wrong parent link"; }
    return "";
}
static std::string reasm_op(uint64_t x) {
    // fragments are handed over, the reassembler keeps clones of their payload layers: complete one datagram, leave another incomplete, copy
    // the reassembler state away by destroying it with streams pending / after clear_streams / after remove_stream
    Bytes pay(48); for (size_t i = 0; i < 48; ++i) pay[i] = (uint8_t)(i + x);
    std::unique_ptr<IPv4Reassembler> r(new IPv4Reassembler()); int done = 0;
    for (int dg = 0; dg < 2; ++dg) for (int k = 0; k < 3; ++k) { int f = (int)((k + x) % 3); if (dg == 1 && f == 1) continue;      // datagram 1 never gets its middle fragment
        IP ip("10.0.0.2", "10.0.0.1"); ip.id((uint16_t)(7 + dg)); ip.protocol(253); ip.fragment_offset((uint16_t)(f * 2)); ip.flags(f == 2 ? (IP::Flags)0 : IP::MORE_FRAGMENTS); ip.inner_pdu(RawPDU(pay.data() + f * 16, 16));
        EthernetII e; e.inner_pdu(ip); IPv4Reassembler::PacketStatus stt = r->process(e);
        if (stt == IPv4Reassembler::REASSEMBLED) { ++done; const RawPDU* raw = e.find_pdu<RawPDU>(); if (!raw || Bytes(raw->payload().begin(), raw->payload().end()) != pay) return "reassembled payload differs"; const IP* rip = e.find_pdu<IP>(); if (!rip->inner_pdu() || rip->inner_pdu()->parent_pdu() != rip) return "reassembled payload layer has a wrong parent link"; } }
    if (done != 1) return fmt("%d datagrams reassembled, expected 1", done);
    switch (x % 3) { case 0: r->clear_streams(); break; case 1: r->remove_stream(8, IPv4Address("10.0.0.1"), IPv4Address("10.0.0.2")); break; default: break; }
    r.reset(); return "";
}

static inline void put32le(Bytes& b, uint32_t v) { for (int i = 0; i < 4; ++i) b.push_back((uint8_t)(v >> (8 * i))); }
static inline void put16le(Bytes& b, uint16_t v) { b.push_back((uint8_t)v); b.push_back((uint8_t)(v >> 8)); }
struct Root { PDU* p; bool known, bytes_known, moved_from; std::vector<int> types; Bytes bytes; Root() : p(0), known(false), bytes_known(false), moved_from(false) {} };
struct PkSlot { Packet* pk; bool known, bytes_known; std::vector<int> types; Bytes bytes; PkSlot() : pk(0), known(false), bytes_known(false) {} };

static std::vector<int> types_of(const PDU* p) { std::vector<int> t; for (; p; p = p->inner_pdu()) t.push_back((int)p->pdu_type()); return t; }
static bool try_serialize(PDU* p, Bytes& out) { out.clear(); if (p->size() == 0) return true; try { PDU::serialization_type s = p->serialize(); out.assign(s.begin(), s.end()); return true; } catch (std::exception&) { return false; } /* incl. value_too_large, which is not a libtins exception_base */ }

struct OwnEngine : Engine {
    const char* name() const { return "own"; }
    std::string components_json() const {
        return "{\"real\":[\"PDU: copy/move constructors and assignments, clone, inner_pdu(ptr/ref), release_inner_pdu, operator/ and /=\",\"copy/move/clone of ~48 concrete layer classes\",\"PDUOption copy/move/assign\",\"Packet: all constructors, assignments, release_pdu, operator/=\",\"parsers and serializers used to create and compare objects\"],"
               "\"stub\":[\"global operator new/delete: ledger of live allocations made inside library calls + bad_alloc injection at the n-th allocation of an op\",\"traffic generator sim/gen + fixtures\",\"ownership-forest shadow model\"]}";
    }
    std::string rule_text(const std::string&) const {
        return "one run = a program of 5-40 ownership operations over a pool of user-owned layer trees (parsed from generated frames of all link types or default constructed) and Packet wrappers: clone, typed copy/move construction and assignment (incl. shorter over longer, self-assignment), operator/ and /=, inner_pdu(ptr/ref), release and re-attach, delete, field mutation, Packet wrap/copy/move/assign/release, PDUOption assignment; in fault runs each op carries fail=n (the n-th allocation inside the op throws bad_alloc). After every op: forest invariant (parent links, no sharing, moved-from/released objects childless), every root still equals its shadow value (layer classes + serialization) unless the op changed it; at the end everything is destroyed and the allocation ledger must be back to zero. distinct = signature of the op-kind sequence with its fault outcomes; non-trivial = at least one copy/move/re-link op executed on a tree of >= 2 layers";
    }

    Plan generate(uint64_t seed, const std::string&, const std::string& tier) {
        Rng root(seed); Rng cfg = root.fork("cfg"), wl = root.fork("workload");
        Plan p; p.engine = "own"; p.mode = "own"; p.seed = seed; p.cfg.set("property", "C12");
        bool faults = cfg.chance(0.4); p.cfg.set("faults", faults ? 1 : 0);
        const int dlts[7] = { gen::DLT_EN10MB_, gen::DLT_EN10MB_, gen::DLT_EN10MB_, gen::DLT_RAW_, gen::DLT_IEEE802_11_, gen::DLT_IEEE802_11_RADIO_, gen::DLT_LINUX_SLL_ };
        int nops = (int)cfg.range(5, tier == "thorough" ? 60 : 30);
        auto add_new = [&]() { if (cfg.chance(0.75)) { int dlt = dlts[cfg.below(7)]; gen::Frame f = gen::frame_for(wl, dlt); KV k; k.set("op", "new").set("dlt", dlt).set("f", f.bytes); p.steps.push_back(k.line()); } else { KV k; k.set("op", "newdef").set("cls", (int64_t)cfg.below(12)); p.steps.push_back(k.line()); } };
        add_new(); add_new();
        static const char* ops[] = { "new", "clone", "copyctor", "clone_inner", "copy_inner", "move_inner", "inner_ref_own", "sniffed", "copyassign", "copyassign", "movector", "moveassign", "div", "diveq", "inner_ptr", "inner_ref", "release", "reattach", "delete", "mutate", "mutate",
                                     "pk_wrap", "pk_clonewrap", "pk_copy", "pk_assign", "pk_assign", "pk_move", "pk_moveassign", "pk_release", "pk_diveq", "optassign", "selfassign", "stack", "tcpstream", "cacher", "reasm" };
        for (int i = 0; i < nops; ++i) {
            std::string o = ops[cfg.below(sizeof(ops) / sizeof(ops[0]))];
            if (o == "new") { add_new(); continue; }
            KV k; k.set("op", o).set("a", (int64_t)cfg.below(64)).set("b", (int64_t)cfg.below(64)).set("x", (int64_t)cfg.below(1000));
            if (o == "tcpstream") { static const uint32_t isns[5] = { 1000, 0xffffffe0u, 0xfffffff5u, 0x7ffffff0u, 0 }; k.set("kind", (int64_t)cfg.below(4)).setu("cisn", isns[cfg.below(5)]).setu("sisn", isns[cfg.below(5)]); }
            if (o == "cacher") k.set("kind", (int64_t)cfg.below(16));
            if (o == "optassign") k.set("s1", (int64_t)cfg.pick(std::vector<int>{0, 1, 7, 8, 9, 16, 40, 200})).set("s2", (int64_t)cfg.pick(std::vector<int>{0, 1, 7, 8, 9, 16, 40, 200})).set("self", cfg.chance(0.2) ? 1 : 0).set("move", cfg.chance(0.4) ? 1 : 0).set("lenfield", cfg.chance(0.3) ? (int64_t)cfg.pick(std::vector<int>{0, 1, 4, 9, 40, 255}) : -1);
            if (faults && cfg.chance(0.5)) k.set("fail", (int64_t)cfg.small(1, 12));
            p.steps.push_back(k.line());
        }
        return p;
    }

    // forest invariant over all user-owned trees
    static bool forest_ok(const std::vector<Root>& roots, const std::vector<PkSlot>& pks, std::string& why) {
        std::set<const PDU*> seen;
        auto walk = [&](const PDU* top, const char* what) -> bool {
            if (!top) return true;
            if (top->parent_pdu() != 0) { why = std::string(what) + ": a root has a parent link"; return false; }
            const PDU* prev = 0; int depth = 0;
            for (const PDU* q = top; q; q = q->inner_pdu()) {
                if (!seen.insert(q).second) { why = std::string(what) + fmt(": layer #%d is reachable from two owners", depth); return false; }
                if (q != top && q->parent_pdu() != prev) { why = std::string(what) + fmt(": layer #%d is owned by one object but its parent link designates another", depth); return false; }
                prev = q; if (++depth > 100) { why = "cycle"; return false; }
            }
            return true;
        };
        for (auto& r : roots) if (!walk(r.p, "tree")) return false;
        for (auto& k : pks) if (!walk(k.pk->pdu(), "packet")) return false;
        return true;
    }

    Verdict execute(const Plan& p, RunStats& st, Trace& tr) {
        std::vector<Root> roots; std::vector<PkSlot> pks; const bool faults = p.cfg.num("faults");
        ledger::live = 0; ledger::fail_countdown = 0; ledger::failures = 0;
        uint64_t sig = 0xC12; bool nontrivial = false; int idx = -1; Verdict result;
        auto record = [&](Root& r) { r.types = types_of(r.p); r.known = true; Bytes a, b; r.bytes_known = try_serialize(r.p, a) && try_serialize(r.p, b) && a == b; r.bytes = a; r.moved_from = false; };
        auto record_pk = [&](PkSlot& k) { k.types = types_of(k.pk->pdu()); k.known = true; Bytes a, b; k.bytes_known = k.pk->pdu() && try_serialize(k.pk->pdu(), a) && try_serialize(k.pk->pdu(), b) && a == b; k.bytes = a; };
        auto add_root = [&](PDU* q) -> Root& { roots.push_back(Root()); roots.back().p = q; record(roots.back()); return roots.back(); };
        auto tail = [](PDU* q) { while (q->inner_pdu()) q = q->inner_pdu(); return q; };
        auto mutate = [&](PDU* top, int x) {   // a setter on some layer
            int n = 0; for (PDU* q = top; q; q = q->inner_pdu()) ++n; int pick = x % n; PDU* q = top; while (pick--) q = q->inner_pdu();
            if (IP* ip = tins_cast<IP*>(q)) ip->ttl((uint8_t)(ip->ttl() + 1 + x % 7)); else if (TCP* t = tins_cast<TCP*>(q)) t->seq(t->seq() + 1 + x); else if (UDP* u = tins_cast<UDP*>(q)) u->sport((uint16_t)(u->sport() + 1 + x));
            else if (RawPDU* r = tins_cast<RawPDU*>(q)) { RawPDU::payload_type pl = r->payload(); pl.push_back((uint8_t)x); r->payload(pl); } else if (EthernetII* e = tins_cast<EthernetII*>(q)) { EthernetII::address_type a = e->src_addr(); a[5] ^= (uint8_t)(1 + x % 200); e->src_addr(a); }
            else if (IPv6* v = tins_cast<IPv6*>(q)) v->hop_limit((uint8_t)(v->hop_limit() + 1 + x % 7)); else if (ICMP* ic = tins_cast<ICMP*>(q)) ic->sequence((uint16_t)(ic->sequence() + 1 + x)); else if (Dot1Q* dq = tins_cast<Dot1Q*>(q)) dq->id((dq->id() + 1 + x) & 0xfff);
            else if (DNS* d = tins_cast<DNS*>(q)) d->id((uint16_t)(d->id() + 1 + x)); else return false; return true; };
        for (auto& sl : p.steps) {
            ++idx; KV k(sl); std::string op = k.str("op"); int fail = faults ? (int)k.num("fail") : 0;
            size_t nr = roots.size(), np = pks.size(); size_t a = nr ? (size_t)k.num("a") % nr : 0, b = nr ? (size_t)k.num("b") % nr : 0; size_t pa = np ? (size_t)k.num("a") % np : 0, pb = np ? (size_t)k.num("b") % np : 0; int x = (int)k.num("x");
            std::string outcome = "ok"; bool threw = false;
            // slots whose value the op is allowed to change
            std::set<size_t> touched_r, touched_p; bool skipped = false;
            try {
                ledger::allocs_in_op = 0; ledger::fail_countdown = fail;
                if (op == "new") { PDU* q = 0; Bytes fb = k.bytes("f"); int dl = (int)k.num("dlt"); try { SUT(q = construct(dl, fb)); } catch (malformed_packet&) {} ledger::fail_countdown = 0; if (q) { add_root(q); } else skipped = true; }
                else if (op == "newdef") { PDU* q = 0; SUT(q = default_of((int)k.num("cls"))); ledger::fail_countdown = 0; add_root(q); }
                else if (!nr && op.compare(0, 3, "pk_") != 0 && op != "optassign" && op != "tcpstream" && op != "reasm") skipped = true;
                else if (op == "clone") { PDU* q = 0; SUT(q = roots[a].p->clone()); ledger::fail_countdown = 0; Root& r = add_root(q); if (roots[a].known && (r.types != roots[a].types || (roots[a].bytes_known && r.bytes_known && r.bytes != roots[a].bytes))) result = Verdict::bad("own:clone-not-equal", "clone differs from its source", idx); if (roots[a].types.size() > 1) nontrivial = true; }
                else if (op == "clone_inner" || op == "copy_inner") {
                    // a copy of a NON-ROOT layer kept as a user-owned root: it must be a root of its own (no parent link into the source tree) and equal to that sub-chain
                    std::vector<int> cur_types = types_of(roots[a].p); size_t n = cur_types.size(); if (n < 2) skipped = true; else { size_t kpos = 1 + (size_t)x % (n - 1); PDU* q0 = roots[a].p; for (size_t i = 0; i < kpos; ++i) q0 = q0->inner_pdu(); PDU* q = 0; if (op == "clone_inner") SUT(q = q0->clone()); else SUT(q = typed_copy(q0)); ledger::fail_countdown = 0;
                        if (!q) skipped = true; else { Root& r = add_root(q); st.inc("probe.copy_of_non_root_layer"); std::vector<int> want(cur_types.begin() + kpos, cur_types.end()); if (r.types != want) result = Verdict::bad("own:copy-not-equal", "copy of an inner layer does not have the layers of that sub-chain", idx); if (q->parent_pdu()) result = Verdict::bad("own:copy-keeps-foreign-parent-link", "a copy of an inner layer is user-owned but its parent link designates the layer that owns the original", idx); nontrivial = true; } } }
                else if (op == "move_inner") {
                    // a user-owned object move-constructed from a NON-ROOT layer: it takes that layer's children, is a root of its own (no parent link), and the source layer stays where it is, childless
                    std::vector<int> cur_types = types_of(roots[a].p); size_t n = cur_types.size(); if (n < 2) skipped = true; else { size_t kpos = 1 + (size_t)x % (n - 1); PDU* q0 = roots[a].p; for (size_t i = 0; i < kpos; ++i) q0 = q0->inner_pdu(); PDU* q = 0; touched_r.insert(a); SUT(q = typed_move(q0)); ledger::fail_countdown = 0;
                        if (!q) skipped = true; else { Root& r = add_root(q); st.inc("probe.move_of_non_root_layer"); std::vector<int> want(cur_types.begin() + kpos, cur_types.end()); roots[a].known = false; roots[a].bytes_known = false; record(roots[a]); roots[a].bytes_known = false;
                            if (r.types != want) result = Verdict::bad("own:move-not-equal", "object move-constructed from an inner layer does not hold that layer's sub-chain", idx);
                            if (q->parent_pdu()) result = Verdict::bad("own:move-keeps-foreign-parent-link", "an object move-constructed from an inner layer is user-owned but its parent link designates the layer that owns the source", idx);
                            if (q0->inner_pdu()) result = Verdict::bad("own:moved-from-keeps-child", "moved-from inner layer still has a child", idx);
                            if (roots[a].types.size() != kpos + 1) result = Verdict::bad("own:forest-broken", fmt("after moving from the layer at depth %zu the source tree has %zu layers, expected %zu", kpos, roots[a].types.size(), kpos + 1), idx); nontrivial = true; } } }
                else if (op == "copyctor") { PDU* q = 0; SUT(q = typed_copy(roots[a].p)); ledger::fail_countdown = 0; if (!q) skipped = true; else { Root& r = add_root(q); if (roots[a].known && (r.types != roots[a].types || (roots[a].bytes_known && r.bytes_known && r.bytes != roots[a].bytes))) result = Verdict::bad("own:copy-not-equal", "copy-constructed object differs from its source", idx); if (roots[a].types.size() > 1) nontrivial = true; } }
                else if (op == "copyassign" || op == "selfassign") {
                    if (op == "selfassign") b = a;
                    // prefer a partner of the same top-level class
                    if (op == "copyassign") { for (size_t i = 0; i < nr; ++i) { size_t j = (b + i) % nr; if (j != a && roots[j].p->pdu_type() == roots[a].p->pdu_type()) { b = j; break; } } }
                    if (roots[a].p->pdu_type() != roots[b].p->pdu_type()) skipped = true;
                    else { touched_r.insert(a); size_t la = roots[a].types.size(), lb = roots[b].types.size(); bool okk = false; SUT(okk = typed_assign(roots[a].p, roots[b].p)); ledger::fail_countdown = 0; if (!okk) skipped = true; else {
                            if (la > lb) st.inc("probe.assign_shorter_over_longer"); else if (la < lb) st.inc("probe.assign_longer_over_shorter"); if (a == b) st.inc("probe.self_assignment");
                            Root src = roots[b]; record(roots[a]);
                            if (src.known && (roots[a].types != src.types || (src.bytes_known && roots[a].bytes_known && roots[a].bytes != src.bytes)))
                                result = Verdict::bad(roots[a].types.size() > src.types.size() ? "own:copy-assign-keeps-old-layers" : "own:copy-not-equal", fmt("after a = b (a had %zu layers, b has %zu): a has %zu layers / %zu bytes, b has %zu bytes", la, lb, roots[a].types.size(), roots[a].bytes.size(), src.bytes.size()), idx);
                            if (std::max(la, lb) > 1) nontrivial = true; } } }
                else if (op == "movector") { Root src = roots[a]; PDU* q = 0; SUT(q = typed_move(roots[a].p)); ledger::fail_countdown = 0; if (!q) skipped = true; else { touched_r.insert(a); Root& r = add_root(q); roots[a].moved_from = true; roots[a].known = false;
                        if (src.known && !src.moved_from && (r.types != src.types || (src.bytes_known && r.bytes_known && r.bytes != src.bytes))) result = Verdict::bad("own:move-not-equal", "move-constructed object differs from what its source held", idx);
                        if (roots[a].p->inner_pdu()) result = Verdict::bad("own:moved-from-keeps-child", "moved-from object still has a child", idx); if (src.types.size() > 1) nontrivial = true; } }
                else if (op == "moveassign") {
                    for (size_t i = 0; i < nr; ++i) { size_t j = (b + i) % nr; if (j != a && roots[j].p->pdu_type() == roots[a].p->pdu_type()) { b = j; break; } }
                    if (a == b || roots[a].p->pdu_type() != roots[b].p->pdu_type()) skipped = true;
                    else { touched_r.insert(a); touched_r.insert(b); Root src = roots[b]; size_t la = roots[a].types.size(); bool okk = false; SUT(okk = typed_move_assign(roots[a].p, roots[b].p)); ledger::fail_countdown = 0; if (!okk) skipped = true; else {
                            record(roots[a]); roots[b].moved_from = true; roots[b].known = false;
                            if (src.known && !src.moved_from && (roots[a].types != src.types || (src.bytes_known && roots[a].bytes_known && roots[a].bytes != src.bytes))) result = Verdict::bad("own:move-not-equal", "move-assigned object differs from what its source held", idx);
                            if (la > 1 && src.types.size() > 1) st.inc("probe.move_assign_both_have_children"); if (std::max(la, src.types.size()) > 1) nontrivial = true; } } }
                else if (op == "div" && roots[a].types.size() + roots[b].types.size() > 12) skipped = true;
                else if (op == "div") { PDU* q = 0; SUT(q = typed_div(roots[a].p, roots[b].p)); ledger::fail_countdown = 0; if (!q) skipped = true; else { Root& r = add_root(q); std::vector<int> want = roots[a].types; want.insert(want.end(), roots[b].types.begin(), roots[b].types.end()); if (roots[a].known && roots[b].known && r.types != want) result = Verdict::bad("own:stack-wrong-layers", "a / b does not have the layers of a followed by those of b", idx); nontrivial = true; } }
                else if (op == "diveq" || op == "stack") { touched_r.insert(a); std::vector<int> want = roots[a].types; want.insert(want.end(), roots[b].types.begin(), roots[b].types.end()); bool both = roots[a].known && roots[b].known; if (roots[a].types.size() + roots[b].types.size() > 12) skipped = true; else { PDU* top = roots[a].p; PDU* last = tail(top); SUT(last->inner_pdu(roots[b].p->clone())); ledger::fail_countdown = 0; record(roots[a]); if (both && roots[a].types != want) result = Verdict::bad("own:stack-wrong-layers", "a /= b does not append the layers of b", idx); nontrivial = true; } }
                else if (op == "inner_ptr") { if (a == b || roots[b].types.size() + 1 > 12) skipped = true; else { touched_r.insert(a); PDU* child = roots[b].p; std::vector<int> want(1, roots[a].types.empty() ? 0 : roots[a].types[0]); want.insert(want.end(), roots[b].types.begin(), roots[b].types.end()); bool both = roots[a].known && roots[b].known;
                        SUT(roots[a].p->inner_pdu(child)); ledger::fail_countdown = 0; roots.erase(roots.begin() + b); size_t na = a > b ? a - 1 : a; record(roots[na]); touched_r.clear(); touched_r.insert(na); if (both && roots[na].types != want) result = Verdict::bad("own:relink-wrong-layers", "inner_pdu(ptr) did not replace the child chain", idx); nontrivial = true; } }
                else if (op == "inner_ref") { touched_r.insert(a); std::vector<int> want(1, roots[a].types.empty() ? 0 : roots[a].types[0]); want.insert(want.end(), roots[b].types.begin(), roots[b].types.end()); bool both = roots[a].known && roots[b].known; if (a == b) { want.resize(1); want.insert(want.end(), roots[a].types.begin(), roots[a].types.end()); }
                        if (roots[b].types.size() + 1 > 12) skipped = true; else { SUT(roots[a].p->inner_pdu(*roots[b].p)); ledger::fail_countdown = 0; record(roots[a]); if (both && roots[a].types != want) result = Verdict::bad("own:relink-wrong-layers", "inner_pdu(ref) did not install a copy of the chain", idx); nontrivial = true; } }
                else if (op == "inner_ref_own") {
                    // inner_pdu(const PDU&) with a layer of the receiver's OWN child chain as argument ("strip the layers in between"): the copy is taken before the old chain goes
                    std::vector<int> cur_types = types_of(roots[a].p); size_t n = cur_types.size(); if (n < 3) skipped = true; else { touched_r.insert(a); size_t kpos = 2 + (size_t)x % (n - 2); PDU* q0 = roots[a].p; for (size_t i = 0; i < kpos; ++i) q0 = q0->inner_pdu();
                        std::vector<int> want(1, cur_types[0]); want.insert(want.end(), cur_types.begin() + kpos, cur_types.end()); SUT(roots[a].p->inner_pdu(*q0)); ledger::fail_countdown = 0; record(roots[a]); st.inc("probe.inner_ref_of_own_descendant");
                        if (roots[a].types != want) result = Verdict::bad("own:relink-wrong-layers", "inner_pdu(ref to an own descendant) did not install a copy of that sub-chain", idx); nontrivial = true; } }
                else if (op == "sniffed") {
                    // Packet built from what a sniffer hands out (PtrPacket -> Packet adopts the parsed tree), copied, moved, destroyed: nothing may be left behind
                    if (!roots[a].bytes_known || roots[a].moved_from || roots[a].bytes.empty() || roots[a].types.empty() || roots[a].types[0] != (int)PDU::ETHERNET_II) skipped = true;
                    else { ledger::fail_countdown = 0; int64_t before = ledger::live; std::string err; const Bytes& fb = roots[a].bytes;
                        Bytes file; put32le(file, 0xa1b2c3d4u); put16le(file, 2); put16le(file, 4); put32le(file, 0); put32le(file, 0); put32le(file, 65535); put32le(file, 1); for (int rep = 0; rep < 2; ++rep) { put32le(file, 1600000000u + rep); put32le(file, 7 * rep); put32le(file, (uint32_t)fb.size()); put32le(file, (uint32_t)fb.size()); putb(file, fb); }
                        FILE* fp = fmemopen(file.data(), file.size(), "rb");
                        if (!fp) skipped = true; else { { ledger::Scope sc; try { FileSniffer sn(fp); Packet p1(sn.next_packet()); if (!p1.pdu()) { /* the serialized tree does not parse back (C03's subject): both records were skipped, nothing to own */ } else { if (p1.pdu()->parent_pdu()) err = "root of a sniffed Packet has a parent link"; Packet p2(p1); Packet p3(std::move(p1)); if (p1.pdu()) err = "moved-from Packet keeps its tree"; if (!p2.pdu() || !p3.pdu() || p2.pdu() == p3.pdu()) err = "copy of a sniffed Packet shares or loses the tree";
                                    Packet p4 = sn.next_packet(); Packet p5; p5 = p4; if (!p4.pdu() || !p5.pdu() || p4.pdu() == p5.pdu()) err = "Packet assigned from a sniffed one shares or loses the tree"; } } catch (std::exception& e) { err = std::string("exception: ") + e.what(); } }
                            st.inc("probe.holder_op.sniffed");
                            if (!err.empty()) result = Verdict::bad("own:holder-sniffed-state", err, idx); else if (ledger::live != before) { result = Verdict::bad("own:holder-sniffed-leak", fmt("%lld allocations made while reading, copying and destroying sniffed Packets are still live", (long long)(ledger::live - before)), idx); ledger::live = before; } } } }
                else if (op == "release") { touched_r.insert(a); PDU* c = 0; SUT(c = roots[a].p->release_inner_pdu()); ledger::fail_countdown = 0; record(roots[a]); if (c) add_root(c); if (roots[a].p->inner_pdu()) result = Verdict::bad("own:released-still-linked", "parent still has a child after release_inner_pdu", idx); if (c && c->parent_pdu()) result = Verdict::bad("own:released-keeps-parent-link", "released child still designates a parent", idx); if (c) nontrivial = true; }
                else if (op == "reattach") { if (a == b || roots[a].types.size() + roots[b].types.size() > 12) skipped = true; else { touched_r.insert(a); touched_r.insert(b); PDU* c = 0; SUT(c = roots[a].p->release_inner_pdu(); if (c) tail(roots[b].p)->inner_pdu(c)); if (c) nontrivial = true; ledger::fail_countdown = 0; record(roots[a]); record(roots[b]); } }
                else if (op == "delete") { SUT(delete roots[a].p); ledger::fail_countdown = 0; roots.erase(roots.begin() + a); }
                else if (op == "mutate") { touched_r.insert(a); if (roots[a].moved_from) skipped = true; else { bool did = false; SUT(did = mutate(roots[a].p, x)); ledger::fail_countdown = 0; record(roots[a]); if (!did) skipped = true; else st.inc("probe.mutation"); } }
                else if (op == "pk_wrap") { if (!nr) skipped = true; else { Packet* pk = 0; SUT(pk = new Packet(roots[a].p, Timestamp(std::chrono::microseconds(x)), Packet::own_pdu())); ledger::fail_countdown = 0; PkSlot s; s.pk = pk; roots.erase(roots.begin() + a); pks.push_back(s); record_pk(pks.back()); } }
                else if (op == "pk_clonewrap") { if (!nr) skipped = true; else { Packet* pk = 0; SUT(pk = x % 2 ? new Packet(*roots[a].p, Timestamp(std::chrono::microseconds(x))) : new Packet((const PDU*)roots[a].p, Timestamp(std::chrono::microseconds(x)))); ledger::fail_countdown = 0; PkSlot s; s.pk = pk; pks.push_back(s); record_pk(pks.back()); if (roots[a].known && pks.back().types != roots[a].types) result = Verdict::bad("own:copy-not-equal", "Packet(pdu) does not hold a copy of the pdu", idx); } }
                else if (!np && op.compare(0, 3, "pk_") == 0) skipped = true;
                else if (op == "pk_copy") { Packet* pk = 0; SUT(pk = new Packet(*pks[pa].pk)); ledger::fail_countdown = 0; PkSlot s; s.pk = pk; pks.push_back(s); record_pk(pks.back()); if (pks[pa].known && (pks.back().types != pks[pa].types || (pks[pa].bytes_known && pks.back().bytes_known && pks.back().bytes != pks[pa].bytes))) result = Verdict::bad("own:copy-not-equal", "Packet copy differs from its source", idx); nontrivial = true; }
                else if (op == "pk_assign") { touched_p.insert(pa); if (x % 7 == 0) pb = pa; SUT(*pks[pa].pk = *pks[pb].pk); ledger::fail_countdown = 0; PkSlot src = pks[pb]; record_pk(pks[pa]); if (pa == pb) st.inc("probe.packet_self_assignment"); if (!src.pk->pdu()) st.inc("probe.assign_from_empty_packet");
                        if (src.known && (pks[pa].types != src.types || (src.bytes_known && pks[pa].bytes_known && pks[pa].bytes != src.bytes))) result = Verdict::bad("own:copy-not-equal", "Packet copy-assignment result differs from its source", idx); nontrivial = true; }
                else if (op == "pk_move") { PkSlot src = pks[pa]; Packet* pk = 0; SUT(pk = new Packet(std::move(*pks[pa].pk))); ledger::fail_countdown = 0; touched_p.insert(pa); PkSlot s; s.pk = pk; pks.push_back(s); record_pk(pks.back()); record_pk(pks[pa]); if (pks[pa].pk->pdu()) result = Verdict::bad("own:moved-from-keeps-child", "moved-from Packet still owns a tree", idx); if (src.known && pks.back().types != src.types) result = Verdict::bad("own:move-not-equal", "moved Packet lost its tree", idx); }
                else if (op == "pk_moveassign") { if (pa == pb) skipped = true; else { touched_p.insert(pa); touched_p.insert(pb); PkSlot src = pks[pb]; SUT(*pks[pa].pk = std::move(*pks[pb].pk)); ledger::fail_countdown = 0; record_pk(pks[pa]); record_pk(pks[pb]); if (src.known && pks[pa].types != src.types) result = Verdict::bad("own:move-not-equal", "move-assigned Packet does not hold the source's tree", idx); } }
                else if (op == "pk_release") { PDU* q = 0; SUT(q = pks[pa].pk->release_pdu()); ledger::fail_countdown = 0; if (pks[pa].pk->pdu()) result = Verdict::bad("own:released-still-linked", "Packet still owns the tree after release_pdu", idx); SUT(delete pks[pa].pk); pks.erase(pks.begin() + pa); if (q) add_root(q); }
                else if (op == "pk_diveq") { if (!nr || !pks[pa].pk->pdu() || pks[pa].types.size() + roots[a].types.size() > 12) skipped = true; else { touched_p.insert(pa); SUT(*pks[pa].pk /= *roots[a].p); ledger::fail_countdown = 0; record_pk(pks[pa]); } }
                else if (op == "optassign") {
                    size_t s1 = (size_t)k.num("s1"), s2 = (size_t)k.num("s2"); Bytes d1(s1, 0x11), d2(s2, 0x22); for (size_t i = 0; i < s2; ++i) d2[i] = (uint8_t)(i * 7 + x);
                    TCP::option* o1 = 0; TCP::option* o2 = 0; int64_t armed = ledger::fail_countdown; ledger::fail_countdown = 0;
                    const int64_t lenfield = k.num("lenfield", -1);      /* an option whose length field is not the size of its data (the 4-argument constructor): copies keep both */
                    SUT(o1 = new TCP::option(TCP::SACK, d1.begin(), d1.end()); o2 = lenfield >= 0 ? new TCP::option(TCP::MSS, (uint16_t)lenfield, d2.begin(), d2.end()) : new TCP::option(TCP::MSS, d2.begin(), d2.end())); bool self = k.num("self");
                    struct Del { TCP::option* a; TCP::option* b; ~Del() { ledger::Scope s; delete a; delete b; } } del = { o1, o2 };
                    ledger::fail_countdown = armed;
                    if (self) { SUT(*o2 = *o2); st.inc("probe.option_self_assignment"); } else if (k.num("move", 0)) { SUT(*o1 = std::move(*o2)); st.inc("probe.option_move_assignment"); } else SUT(*o1 = *o2);
                    ledger::fail_countdown = 0;
                    TCP::option& r = self ? *o2 : *o1;
                    if (r.data_size() != s2 || (s2 && memcmp(r.data_ptr(), d2.data(), s2) != 0) || r.option() != TCP::MSS || r.length_field() != (size_t)(lenfield >= 0 ? lenfield : (int64_t)s2)) result = Verdict::bad("own:option-assign-not-equal", fmt("option assignment (%zu <- %zu bytes%s) did not produce an equal option", s1, s2, self ? ", self" : ""), idx);
                    if ((s1 > 8) != (s2 > 8)) st.inc("probe.option_assign_across_small_buffer_threshold"); }
                else if (op == "tcpstream" || op == "cacher" || op == "reasm") {
                    // self-contained: no allocation fault is armed (the op's own scaffolding would not survive it), every object is gone at the end
                    ledger::fail_countdown = 0; int64_t before = ledger::live; std::string err;
                    if (op == "cacher" && (!nr || !roots[a].bytes_known || roots[a].moved_from)) skipped = true;
                    else {
                        { ledger::Scope sc; if (op == "tcpstream") err = legacy_stream_op((int)k.num("kind"), (uint32_t)k.u64("cisn", 1), (uint32_t)k.u64("sisn", 2), (uint64_t)x); else if (op == "cacher") err = cacher_op(roots[a].p, roots[a].bytes, (int)k.num("kind")); else err = reasm_op((uint64_t)x); }
                        if (err == "skip") skipped = true;
                        else { st.inc("probe.holder_op." + op);
                            if (!err.empty()) result = Verdict::bad("own:holder-" + op + "-state", err, idx);
                            else if (ledger::live != before) result = Verdict::bad("own:holder-" + op + "-leak", fmt("%lld allocations made by the operation are still live after every object it created was destroyed", (long long)(ledger::live - before)), idx); if (result.viol) ledger::live = before; }
                    }
                }
                else skipped = true;
                ledger::fail_countdown = 0;
            }
            catch (std::bad_alloc&) { threw = true; outcome = "bad_alloc"; ledger::fail_countdown = 0; st.inc("fault.bad_alloc"); st.inc("fault.bad_alloc_in." + op);
                // basic guarantee only: the value of touched slots is unconstrained from now on
                for (size_t i : touched_r) if (i < roots.size()) { roots[i].known = false; roots[i].bytes_known = false; roots[i].moved_from = false; }
                for (size_t i : touched_p) if (i < pks.size()) { pks[i].known = false; pks[i].bytes_known = false; } }
            catch (exception_base& e) { threw = true; outcome = std::string("tins:") + demangle(typeid(e).name()); ledger::fail_countdown = 0; st.inc("probe.libtins_exception_in_op"); for (size_t i : touched_r) if (i < roots.size()) { roots[i].known = false; roots[i].bytes_known = false; } }
            if (skipped) outcome = "skipped";
            tr.add(fmt("op %d %s a=%zu b=%zu fail=%d -> %s roots=%zu pks=%zu live=%lld allocs=%llu", idx, op.c_str(), a, b, fail, outcome.c_str(), roots.size(), pks.size(), (long long)ledger::live, (unsigned long long)ledger::allocs_in_op));
            sig = mix64(sig, fnv1a(op) ^ fnv1a(outcome));
            if (result.viol) break;
            if (!skipped) { st.inc("chk.op"); st.inc("probe.op." + op); } else st.inc("probe.op_skipped." + op);
            // ---- invariants after every op
            std::string why; if (!forest_ok(roots, pks, why)) { result = Verdict::bad(threw ? "own:forest-broken-after-bad_alloc" : "own:forest-broken", op + ": " + why, idx); break; }
            for (size_t i = 0; i < roots.size() && !result.viol; ++i) {
                Root& r = roots[i]; if (r.moved_from && r.p->inner_pdu()) { result = Verdict::bad("own:moved-from-keeps-child", "a moved-from object has a child", idx); break; }
                if (!r.known) continue; st.inc("chk.root_equals_shadow");
                if (types_of(r.p) != r.types) { result = Verdict::bad(threw ? "own:bystander-changed-after-bad_alloc" : "own:bystander-changed", fmt("%s changed the layer list of an object it does not own (slot %zu)", op.c_str(), i), idx); break; }
                if (r.bytes_known) { Bytes now; if (!try_serialize(r.p, now) || now != r.bytes) { result = Verdict::bad(threw ? "own:bystander-changed-after-bad_alloc" : "own:shows-through", fmt("%s changed the serialization of another object (slot %zu): copies are not independent", op.c_str(), i), idx); break; } }
            }
            for (size_t i = 0; i < pks.size() && !result.viol; ++i) { PkSlot& s = pks[i]; if (!s.known) continue; if (types_of(s.pk->pdu()) != s.types) { result = Verdict::bad("own:bystander-changed", fmt("%s changed a Packet it does not own (slot %zu)", op.c_str(), i), idx); break; } if (s.bytes_known && s.pk->pdu()) { Bytes now; if (!try_serialize(s.pk->pdu(), now) || now != s.bytes) { result = Verdict::bad("own:shows-through", fmt("%s changed the serialization of another Packet (slot %zu)", op.c_str(), i), idx); break; } } }
            if (result.viol) break;
            st.states.insert(mix64((uint64_t)fnv1a(op) % 64 * 64 + std::min<size_t>(roots.size(), 7) * 8 + std::min<size_t>(pks.size(), 3) * 2 + (threw ? 1 : 0), 0xC12));
        }
        // ---- destroy everything; every layer must be freed exactly once (ASan sees double frees), nothing may stay allocated
        { ledger::Scope s; for (auto& r : roots) delete r.p; for (auto& k : pks) delete k.pk; }
        roots.clear(); pks.clear();
        if (!result.viol && ledger::live != 0) result = Verdict::bad(ledger::failures ? "own:leak-after-bad_alloc" : "own:leak", fmt("%lld allocations made inside library calls are still live after every object was destroyed", (long long)ledger::live), idx);
        st.inc("chk.ledger"); st.sched_sig = sig; st.nontrivial = nontrivial; st.sim_us = 0;
        return result;
    }

    std::string signature(const Plan& p, const Verdict& v) {
        // shape: the op at which the violation was observed and whether an allocation fault was armed on it
        std::string s = v.cls; if (v.at_step >= 0 && v.at_step < (int)p.steps.size()) { KV k(p.steps[v.at_step]); s += "|" + k.str("op") + (p.cfg.num("faults") && k.num("fail") ? "+fail" : ""); }
        return s;
    }
};

int main(int argc, char** argv) { OwnEngine e; return engine_main(e, argc, argv); }
