// Engine `thr`: C18 - independent objects used from different threads.
// Real code: the whole library, built with clang -fsanitize-coverage=trace-pc-guard,trace-loads,trace-stores
// (flavour sancov). Stub: the thread scheduler. K real pthreads are parked on semaphores; exactly one runs; every basic
// block of libtins is a possible preemption point decided by the seeded PRNG, so one seed is one interleaving.
// Oracles: (a) shared-access monitor over every load/store libtins makes to static storage of the executable;
// (b) each thread's digest equals the digest of the same calls run alone.
#include "kernel.hpp"
#include "codec.hpp"
#include "gen.hpp"
#include "inspect.hpp"
#include "wlan.hpp"
#include <tins/tins.h>
#include <tins/loopback.h>
#include <tins/ip_reassembler.h>
#include <tins/tcp_ip/stream_follower.h>
#include <tins/detail/pdu_helpers.h>
#include <pthread.h>
#include <semaphore.h>
#include <elf.h>
#include <memory>
#include <fstream>

using namespace sim; using namespace codec;

// ============================================================================ scheduler
namespace sched {
struct Th { pthread_t th; sem_t sem; bool done; std::function<void()> body; };
static void (*on_thread_start)() = 0; static Th* threads = 0; static int nthreads = 0; static volatile bool on = false; static volatile int cur = -1;
static __thread int tl_id = -1; static __thread int tl_nopreempt = 0;
static Rng rng(1); static int64_t budget = 0; static int budget_lo = 1, budget_hi = 1000; static uint64_t steps = 0, switches = 0; static uint64_t sched_hash = 0;
static int64_t draw_budget() { return budget_lo + (int64_t)rng.below((uint64_t)(budget_hi - budget_lo + 1)); }
static int pick_runnable(int self) { int cand[64], n = 0; for (int i = 0; i < nthreads; ++i) if (!threads[i].done) cand[n++] = i; if (!n) return -1; (void)self; return cand[rng.below((uint64_t)n)]; }
static void yield_now() {
    int self = tl_id; int nx = pick_runnable(self); budget = draw_budget();
    if (nx < 0 || nx == self) return;
    ++switches; sched_hash = mix64(sched_hash, (uint64_t)nx * 1000003 + steps); cur = nx; sem_post(&threads[nx].sem);
    while (sem_wait(&threads[self].sem) != 0) {}
}
static void* entry(void* a) {
    int id = (int)(intptr_t)a; tl_id = id; if (on_thread_start) on_thread_start(); while (sem_wait(&threads[id].sem) != 0) {}
    threads[id].body();
    threads[id].done = true; int nx = pick_runnable(id); budget = draw_budget(); if (nx >= 0) { cur = nx; ++switches; sem_post(&threads[nx].sem); }
    tl_id = -1; return 0;
}
static void run(std::vector<std::function<void()> >& bodies, uint64_t seed, int blo, int bhi) {
    nthreads = (int)bodies.size(); threads = new Th[nthreads]; rng.reseed(seed); budget_lo = blo; budget_hi = bhi; steps = switches = 0; sched_hash = 0;
    for (int i = 0; i < nthreads; ++i) { threads[i].done = false; threads[i].body = bodies[i]; sem_init(&threads[i].sem, 0, 0); pthread_create(&threads[i].th, 0, entry, (void*)(intptr_t)i); }
    budget = draw_budget(); on = true; int first = pick_runnable(-1); cur = first; sem_post(&threads[first].sem);
    for (int i = 0; i < nthreads; ++i) pthread_join(threads[i].th, 0);
    on = false; for (int i = 0; i < nthreads; ++i) sem_destroy(&threads[i].sem); delete[] threads; threads = 0; nthreads = 0;
}
}

// ============================================================================ per-thread heap arenas (ownership by address range)
// Every logical thread allocates from its own arena inside one reserved mapping (bump allocation, reset at the start of a
// run); outside simulated threads (set-up, warm-up, one-time initialisations) operator new falls through to malloc.
#include <sys/mman.h>
#include <new>
namespace arena {
static const size_t NARENA = 16, ARENA_SZ = (size_t)256 << 20; static uint8_t* base = 0; static size_t used[NARENA]; static int64_t live_blocks[NARENA];
static void init() { if (!base) base = (uint8_t*)mmap(0, NARENA * ARENA_SZ, PROT_READ | PROT_WRITE, MAP_PRIVATE | MAP_ANONYMOUS | MAP_NORESERVE, -1, 0); }
static const int LIFETIME = 15;   // objects created by one-time initialisation during warm-up live here for the whole process
static void reset() { init(); for (size_t i = 0; i < NARENA; ++i) { if ((int)i == LIFETIME) continue; live_blocks[i] = 0; if (used[i]) madvise(base + i * ARENA_SZ, used[i], MADV_DONTNEED); used[i] = 0; } }
static inline bool contains(const void* p) { return base && (const uint8_t*)p >= base && (const uint8_t*)p < base + NARENA * ARENA_SZ; }
static inline int owner(const void* p) { return (int)(((const uint8_t*)p - base) / ARENA_SZ); }
}
namespace mon { static __thread int tl_logical = -1; }
static void* arena_alloc(size_t n, bool nothrow) {
    int t = mon::tl_logical;
    if (t >= 0 && t < (int)arena::NARENA && arena::base) { size_t sz = (n + 15) & ~(size_t)15; if (sz == 0) sz = 16; if (arena::used[t] + sz <= arena::ARENA_SZ) { void* p = arena::base + (size_t)t * arena::ARENA_SZ + arena::used[t]; arena::used[t] += sz; ++arena::live_blocks[t]; return p; } }
    void* p = malloc(n ? n : 1); if (!p && !nothrow) throw std::bad_alloc(); return p;
}
static void arena_free(void* p) { if (!p) return; if (arena::contains(p)) { --arena::live_blocks[arena::owner(p)]; return; } free(p); }
void* operator new(size_t n) { return arena_alloc(n, false); } void* operator new[](size_t n) { return arena_alloc(n, false); }
void* operator new(size_t n, const std::nothrow_t&) noexcept { return arena_alloc(n, true); } void* operator new[](size_t n, const std::nothrow_t&) noexcept { return arena_alloc(n, true); }
void operator delete(void* p) noexcept { arena_free(p); } void operator delete[](void* p) noexcept { arena_free(p); } void operator delete(void* p, size_t) noexcept { arena_free(p); } void operator delete[](void* p, size_t) noexcept { arena_free(p); }

// ============================================================================ shared-access monitor
namespace mon {
extern "C" char __data_start, _end;
static uintptr_t lo = 0, hi = 0; static volatile bool on = false; static uint64_t n_cross_heap = 0, n_other_heap = 0, n_dbg = 0; static __thread uintptr_t tl_stack_lo = 0, tl_stack_hi = 0;
static void note_stack() { pthread_attr_t at; if (pthread_getattr_np(pthread_self(), &at) == 0) { void* sa = 0; size_t sz = 0; pthread_attr_getstack(&at, &sa, &sz); tl_stack_lo = (uintptr_t)sa; tl_stack_hi = (uintptr_t)sa + sz; pthread_attr_destroy(&at); } }
struct Ent { uintptr_t a; uint32_t writers, readers; };
static const size_t TAB = 1 << 16; static Ent tab[TAB]; static uint64_t n_static_reads = 0, n_static_writes = 0, n_guarded_writes = 0;
static void reset() { memset(tab, 0, sizeof tab); n_static_reads = n_static_writes = n_guarded_writes = 0; n_cross_heap = 0; n_other_heap = 0; lo = (uintptr_t)&__data_start; hi = (uintptr_t)&_end; }
static void* dbg_ra = 0;
static inline void access(const void* p, bool write) {
    if (!on) return; uintptr_t a = (uintptr_t)p; int t = tl_logical; if (t < 0) return;
    if (a < lo || a >= hi) {
        // heap: a block owned by another logical thread (its arena). Thread-private objects never cross arenas, so any such access is hidden sharing
        if (arena::contains(p)) { if (arena::owner(p) == t) return; ++n_cross_heap; if (write && sched::tl_nopreempt > 0) return; }
        else return;   // neither static nor an arena (own stack, exception objects and other malloc memory): not judged
    } else { if (write) { if (sched::tl_nopreempt > 0) { ++n_guarded_writes; return; } ++n_static_writes; } else ++n_static_reads; }
    uintptr_t g = a >> 3; size_t h = (size_t)((g * 0x9e3779b97f4a7c15ULL) >> 48) & (TAB - 1);
    for (size_t i = 0; i < TAB; ++i) { Ent& e = tab[(h + i) & (TAB - 1)]; if (e.a == 0) e.a = g; if (e.a == g) { if (write) e.writers |= 1u << t; else e.readers |= 1u << t; if (arena::contains(p) && arena::owner(p) != arena::LIFETIME) e.writers |= 1u << arena::owner(p); return; } }
}
// a byte range touched by an uninstrumented bulk routine: every 8-byte granule of it that lies in static memory, the first one otherwise
static inline void range(const void* p, size_t n, bool write) {
    if (!on || tl_logical < 0 || !n) return; uintptr_t a = (uintptr_t)p;
    if (a + n <= lo || a >= hi) { access(p, write); return; }
    uintptr_t e = a + std::min<size_t>(n, 4096); for (uintptr_t x = a & ~(uintptr_t)7; x < e; x += 8) access((const void*)(x < a ? a : x), write);
}
}
extern "C" {
void __sanitizer_cov_trace_pc_guard_init(uint32_t* start, uint32_t* stop) { static uint32_t n = 0; if (start == stop || *start) return; for (uint32_t* x = start; x < stop; ++x) *x = ++n; }
void __sanitizer_cov_trace_pc_guard(uint32_t*) { if (!sched::on || sched::tl_id < 0) return; ++sched::steps; if (sched::tl_nopreempt) return; if (--sched::budget > 0) return; sched::yield_now(); }
void __sanitizer_cov_load1(uint8_t* p) { mon::access(p, false); } void __sanitizer_cov_load2(uint16_t* p) { mon::access(p, false); } void __sanitizer_cov_load4(uint32_t* p) { mon::access(p, false); }
void __sanitizer_cov_load8(uint64_t* p) { mon::access(p, false); } void __sanitizer_cov_load16(__uint128_t* p) { mon::access(p, false); }
void __sanitizer_cov_store1(uint8_t* p) { mon::dbg_ra = __builtin_return_address(0); mon::access(p, true); } void __sanitizer_cov_store2(uint16_t* p) { mon::dbg_ra = __builtin_return_address(0); mon::access(p, true); } void __sanitizer_cov_store4(uint32_t* p) { mon::dbg_ra = __builtin_return_address(0); mon::access(p, true); }
void __sanitizer_cov_store8(uint64_t* p) { mon::dbg_ra = __builtin_return_address(0); mon::access(p, true); } void __sanitizer_cov_store16(__uint128_t* p) { mon::dbg_ra = __builtin_return_address(0); mon::access(p, true); }
// one-time initialisation of function-local statics: not preempted inside (another thread would block on the guard while
// the holder is parked) and the monitor treats the writes as initialisation
int __real___cxa_guard_acquire(void*); void __real___cxa_guard_release(void*); void __real___cxa_guard_abort(void*);
int __wrap___cxa_guard_acquire(void* g) { ++sched::tl_nopreempt; int r = __real___cxa_guard_acquire(g); if (!r) --sched::tl_nopreempt; return r; }
void __wrap___cxa_guard_release(void* g) { __real___cxa_guard_release(g); --sched::tl_nopreempt; }
void __wrap___cxa_guard_abort(void* g) { __real___cxa_guard_abort(g); --sched::tl_nopreempt; }
}

// libc functions with hidden static state: a call from library code on two different threads is shared mutable state
// the load/store monitor cannot see (it lives in libc), so the calls themselves are recorded (link-time --wrap)
namespace unsafe { static uint32_t callers[16]; static const char* names[16] = { "inet_ntoa", "localtime", "gmtime", "ctime", "asctime", "strtok", "rand", "strerror", "gethostbyname", "ether_ntoa", "getservbyname", "setlocale", "HMAC(md=NULL)", "SHA1(md=NULL)", "MD5(md=NULL)" };
    static inline void note(int i) { if (mon::on && mon::tl_logical >= 0) callers[i] |= 1u << mon::tl_logical; } }
#include <stdarg.h>
#include <arpa/inet.h>
#include <netdb.h>
#include <netinet/ether.h>
#include <locale.h>
extern "C" {
char* __real_inet_ntoa(struct in_addr); char* __wrap_inet_ntoa(struct in_addr a) { unsafe::note(0); return __real_inet_ntoa(a); }
struct tm* __real_localtime(const time_t*); struct tm* __wrap_localtime(const time_t* t) { unsafe::note(1); return __real_localtime(t); }
struct tm* __real_gmtime(const time_t*); struct tm* __wrap_gmtime(const time_t* t) { unsafe::note(2); return __real_gmtime(t); }
char* __real_ctime(const time_t*); char* __wrap_ctime(const time_t* t) { unsafe::note(3); return __real_ctime(t); }
char* __real_asctime(const struct tm*); char* __wrap_asctime(const struct tm* t) { unsafe::note(4); return __real_asctime(t); }
char* __real_strtok(char*, const char*); char* __wrap_strtok(char* a, const char* b) { unsafe::note(5); return __real_strtok(a, b); }
int __real_rand(void); int __wrap_rand(void) { unsafe::note(6); return __real_rand(); }
char* __real_strerror(int); char* __wrap_strerror(int e) { unsafe::note(7); return __real_strerror(e); }
struct hostent* __real_gethostbyname(const char*); struct hostent* __wrap_gethostbyname(const char* n) { unsafe::note(8); return __real_gethostbyname(n); }
char* __real_ether_ntoa(const struct ether_addr*); char* __wrap_ether_ntoa(const struct ether_addr* a) { unsafe::note(9); return __real_ether_ntoa(a); }
struct servent* __real_getservbyname(const char*, const char*); struct servent* __wrap_getservbyname(const char* a, const char* b) { unsafe::note(10); return __real_getservbyname(a, b); }
char* __real_setlocale(int, const char*); char* __wrap_setlocale(int c, const char* l) { unsafe::note(11); return __real_setlocale(c, l); }
// bulk writers of libc are not instrumented: a copy / fill / formatted print into static memory (or into another thread's heap) made by library
// code would be invisible to the load/store monitor, so the calls themselves report their ranges
void* __real_memcpy(void*, const void*, size_t); void* __wrap_memcpy(void* d, const void* s, size_t n) { mon::range(d, n, true); mon::range(s, n, false); return __real_memcpy(d, s, n); }
void* __real_memmove(void*, const void*, size_t); void* __wrap_memmove(void* d, const void* s, size_t n) { mon::range(d, n, true); mon::range(s, n, false); return __real_memmove(d, s, n); }
void* __real_memset(void*, int, size_t); void* __wrap_memset(void* d, int c, size_t n) { mon::range(d, n, true); return __real_memset(d, c, n); }
char* __real_strcpy(char*, const char*); char* __wrap_strcpy(char* d, const char* s) { mon::range(d, strlen(s) + 1, true); return __real_strcpy(d, s); }
char* __real_strncpy(char*, const char*, size_t); char* __wrap_strncpy(char* d, const char* s, size_t n) { mon::range(d, n, true); return __real_strncpy(d, s, n); }
int __real_vsnprintf(char*, size_t, const char*, va_list); int __wrap_vsnprintf(char* d, size_t n, const char* f, va_list ap) { if (d && n) mon::range(d, 1, true); return __real_vsnprintf(d, n, f, ap); }
int __wrap_snprintf(char* d, size_t n, const char* f, ...) { if (d && n) mon::range(d, 1, true); va_list ap; va_start(ap, f); int r = __real_vsnprintf(d, n, f, ap); va_end(ap); return r; }
int __wrap_sprintf(char* d, const char* f, ...) { mon::range(d, 1, true); va_list ap; va_start(ap, f); int r = vsprintf(d, f, ap); va_end(ap); return r; }
// OpenSSL one-shot digests write into a function-static buffer when the caller passes no output buffer (documented as not thread safe)
unsigned char* __real_HMAC(const void*, const void*, int, const unsigned char*, size_t, unsigned char*, unsigned int*);
unsigned char* __wrap_HMAC(const void* e, const void* k, int kl, const unsigned char* d, size_t n, unsigned char* md, unsigned int* ml) { if (!md) unsafe::note(12); return __real_HMAC(e, k, kl, d, n, md, ml); }
unsigned char* __real_SHA1(const unsigned char*, size_t, unsigned char*); unsigned char* __wrap_SHA1(const unsigned char* d, size_t n, unsigned char* md) { if (!md) unsafe::note(13); return __real_SHA1(d, n, md); }
unsigned char* __real_MD5(const unsigned char*, size_t, unsigned char*); unsigned char* __wrap_MD5(const unsigned char* d, size_t n, unsigned char* md) { if (!md) unsafe::note(14); return __real_MD5(d, n, md); }
}

// symbol covering an address of the executable's static storage (reads .symtab of /proc/self/exe)
namespace symtab { static std::vector<std::pair<std::pair<uintptr_t, uintptr_t>, std::string> > syms; static bool loaded = false; static uintptr_t bias = 0; }
static std::string static_symbol(uintptr_t addr) {
    using namespace symtab;
    if (!loaded) {
        loaded = true; std::ifstream f("/proc/self/exe", std::ios::binary); std::string d((std::istreambuf_iterator<char>(f)), std::istreambuf_iterator<char>());
        if (d.size() > sizeof(Elf64_Ehdr)) { const Elf64_Ehdr* eh = (const Elf64_Ehdr*)d.data(); const Elf64_Shdr* sh = (const Elf64_Shdr*)(d.data() + eh->e_shoff);
            for (int i = 0; i < eh->e_shnum; ++i) if (sh[i].sh_type == SHT_SYMTAB) { const Elf64_Sym* st = (const Elf64_Sym*)(d.data() + sh[i].sh_offset); size_t n = sh[i].sh_size / sizeof(Elf64_Sym); const char* str = d.data() + sh[sh[i].sh_link].sh_offset;
                for (size_t k = 0; k < n; ++k) { if (ELF64_ST_TYPE(st[k].st_info) != STT_OBJECT || !st[k].st_size) continue; syms.push_back(std::make_pair(std::make_pair((uintptr_t)st[k].st_value, (uintptr_t)(st[k].st_value + st[k].st_size)), std::string(str + st[k].st_name)));
                    if (std::string(str + st[k].st_name) == "__data_start_marker_unused") {} } }
            // load bias: runtime address of __data_start minus its link-time value
            for (int i = 0; i < eh->e_shnum; ++i) if (sh[i].sh_type == SHT_SYMTAB) { const Elf64_Sym* st = (const Elf64_Sym*)(d.data() + sh[i].sh_offset); size_t n = sh[i].sh_size / sizeof(Elf64_Sym); const char* str = d.data() + sh[sh[i].sh_link].sh_offset; for (size_t k = 0; k < n; ++k) if (!strcmp(str + st[k].st_name, "__data_start")) bias = (uintptr_t)&mon::__data_start - (uintptr_t)st[k].st_value; } }
    }
    uintptr_t v = addr - bias; for (auto& s : syms) if (v >= s.first.first && v < s.first.second) return demangle(s.second.c_str());
    return "unknown-static";
}

// ============================================================================ snapshot of the library's own writable static objects
// Every data object of namespace Tins in .data/.bss (namespace-scope and function-local statics, static members; not the guard
// variables) is copied before the logical threads of a run start and compared after they have finished: whatever the threads'
// calls changed there outlives the objects the threads owned - hidden process-wide mutable state, whether or not the store
// was an instrumented instruction (aggregate copies compiled to inline moves are not) and whether or not a result differed.
namespace snap {
struct Obj { uintptr_t a; size_t n; std::string name; }; static std::vector<Obj> objs; static std::vector<uint8_t> before; static bool loaded = false;
static void load() { if (loaded) return; loaded = true; static_symbol((uintptr_t)&mon::__data_start); uintptr_t lo = (uintptr_t)&mon::__data_start, hi = (uintptr_t)&mon::_end;
    for (auto& s : symtab::syms) { const std::string& nm = s.second; if (nm.find("4Tins") == std::string::npos || nm.compare(0, 4, "_ZGV") == 0) continue; uintptr_t a = s.first.first + symtab::bias, e = s.first.second + symtab::bias; if (a < lo || e > hi) continue; Obj o; o.a = a; o.n = e - a; o.name = nm; objs.push_back(o); } }
static void take() { load(); size_t tot = 0; for (auto& o : objs) tot += o.n; before.resize(tot); size_t at = 0; for (auto& o : objs) { memcpy(&before[at], (const void*)o.a, o.n); at += o.n; } }
static std::string changed() { std::string r; size_t at = 0; for (auto& o : objs) { if (memcmp(&before[at], (const void*)o.a, o.n) != 0) { if (!r.empty()) r += "; "; r += demangle(o.name.c_str()); } at += o.n; } return r; }
}

// ============================================================================ workload
typedef std::vector<std::vector<std::string> > Fix;
static const std::vector<std::pair<int, Bytes> >& wpa2_fix(const std::string& which) {
    static std::map<std::string, std::vector<std::pair<int, Bytes> > > m; static bool loaded = false;
    if (!loaded) { loaded = true; std::ifstream in("/verif/sim/fixtures/wpa2_frames.txt"); std::string l; while (std::getline(in, l)) { if (l.empty() || l[0] == '#') continue; std::istringstream is(l); std::string n, hx; int i; is >> n >> i >> hx; m[n].push_back(std::make_pair(i, unhex(hx))); } }
    return m[which];
}
static Tins::PDU* construct(int dlt, const Bytes& f) {
    using namespace Tins; const uint8_t* p = f.data(); uint32_t n = (uint32_t)f.size(); static const uint8_t z = 0; if (!p) p = &z;
    switch (dlt) { case gen::DLT_EN10MB_: if (Internals::is_dot3(p, n)) return new Dot3(p, n); return new EthernetII(p, n); case gen::DLT_NULL_: return new Loopback(p, n); case gen::DLT_LINUX_SLL_: return new SLL(p, n);
        case gen::DLT_RAW_: if (n && (p[0] >> 4) == 4) return new IP(p, n); if (n && (p[0] >> 4) == 6) return new IPv6(p, n); return 0; case gen::DLT_IEEE802_11_RADIO_: return new RadioTap(p, n); case gen::DLT_IEEE802_11_: return Dot11::from_bytes(p, n); case gen::DLT_PPI_: return new PPI(p, n); default: return 0; }
}
// application-defined layers registered with the library before any thread starts (Allocators::register_allocator): from then on the registry is only read
template<int N> struct UserLayer : Tins::PDU {
    static const Tins::PDU::PDUType pdu_flag = (Tins::PDU::PDUType)(Tins::PDU::USER_DEFINED_PDU + N);
    std::vector<uint8_t> b; UserLayer(const uint8_t* p, uint32_t n) : b(p, p + n) {}
    UserLayer* clone() const { return new UserLayer(*this); } uint32_t header_size() const { return (uint32_t)b.size(); } Tins::PDU::PDUType pdu_type() const { return pdu_flag; }
    void write_serialization(uint8_t* d, uint32_t n) { memcpy(d, b.data(), std::min<size_t>(n, b.size())); }
};
template<int N> const Tins::PDU::PDUType UserLayer<N>::pdu_flag;
static const bool g_user_layers_registered = (Tins::Allocators::register_allocator<Tins::IP, UserLayer<1> >(253), Tins::Allocators::register_allocator<Tins::IP, UserLayer<2> >(254),
                                              Tins::Allocators::register_allocator<Tins::EthernetII, UserLayer<3> >(0x88b5), Tins::Allocators::register_allocator<Tins::EthernetII, UserLayer<4> >(0x88b6), true);
struct ThreadState { std::unique_ptr<Tins::IPv4Reassembler> reasm; std::unique_ptr<Tins::TCPIP::StreamFollower> fol; uint64_t fol_bytes; ThreadState() : fol_bytes(0) {} };
static uint64_t H(uint64_t h, const void* p, size_t n) { return fnv1a(p, n, h); }
static uint64_t Hs(uint64_t h, const std::string& s) { return fnv1a(s, h); }
static uint64_t Hu(uint64_t h, uint64_t v) { return mix64(h, v); }

static uint64_t run_op(const KV& k, ThreadState& ts, uint64_t h) {
    using namespace Tins; std::string op = k.str("op");
    try {
        if (op == "parse") {
            std::unique_ptr<PDU> p(construct((int)k.num("dlt"), k.bytes("f"))); if (!p) return Hu(h, 0xdead);
            for (PDU* q = p.get(); q; q = q->inner_pdu()) { h = Hu(h, (uint64_t)q->pdu_type()); h = Hu(h, q->header_size()); }
            h = Hu(h, p->size()); std::unique_ptr<PDU> c(p->clone());
            try { PDU::serialization_type s = c->serialize(); h = H(h, s.data(), s.size()); } catch (exception_base& e) { h = Hs(h, typeid(e).name()); }
            if (const IP* ip = p->find_pdu<IP>()) { h = Hs(h, ip->src_addr().to_string()); h = Hu(h, ip->options().size()); }
            if (const TCP* t = p->find_pdu<TCP>()) { h = Hu(h, t->seq()); try { h = Hu(h, t->mss()); } catch (option_not_found&) { h = Hu(h, 1); } }
            if (const UDP* u = p->find_pdu<UDP>()) { if (u->dport() == 53 || u->sport() == 53) { if (const RawPDU* r = u->find_pdu<RawPDU>()) { try { DNS d = r->to<DNS>(); for (auto& q : d.queries()) h = Hs(h, q.dname()); for (auto& a : d.answers()) h = Hs(h, a.dname() + a.data()); } catch (exception_base& e) { h = Hs(h, typeid(e).name()); } } } }
            if (const Dot11Beacon* b = p->find_pdu<Dot11Beacon>()) { try { h = Hs(h, b->ssid()); } catch (exception_base& e) { h = Hs(h, typeid(e).name()); } }
            // the whole read-only surface (typed option / record decoders, application payload decoders): reach for the static-access monitor, and the
            // number of calls that ended in a libtins exception is part of the digest
            { inspect::Counters ic; inspect::packet(*p, ic); h = Hu(h, ic.calls); h = Hu(h, ic.tins_exc); h = Hu(h, ic.app_decodes); }
        }
        else if (op == "frag") {
            if (!ts.reasm) ts.reasm.reset(new IPv4Reassembler());
            Bytes payload = k.bytes("pl"); size_t mtu = (size_t)k.num("mtu"); uint16_t id = (uint16_t)k.num("id"); int order = (int)k.num("ord");
            std::vector<Bytes> frames; size_t chunk = std::max<size_t>(8, (mtu / 8) * 8);
            for (size_t pos = 0; pos < payload.size(); pos += chunk) { Ip4Hdr hd; hd.src = Addr::v4(10, 0, 0, 1); hd.dst = Addr::v4(10, 0, 0, 2); hd.proto = 17; hd.id = id; hd.frag_off8 = (uint16_t)(pos / 8); hd.mf = pos + chunk < payload.size(); frames.push_back(eth_bytes(Mac::of(1), Mac::of(2), 0x0800, ip4_bytes(hd, Bytes(payload.begin() + pos, payload.begin() + std::min(payload.size(), pos + chunk))))); }
            if (order == 1) std::reverse(frames.begin(), frames.end()); else if (order == 2 && frames.size() > 2) std::swap(frames[0], frames[frames.size() / 2]);
            for (auto& f : frames) { EthernetII e(f.data(), (uint32_t)f.size()); int st = (int)ts.reasm->process(e); h = Hu(h, (uint64_t)st); if (st == IPv4Reassembler::REASSEMBLED) { PDU::serialization_type s = e.rfind_pdu<IP>().inner_pdu()->serialize(); h = H(h, s.data(), s.size()); } }
        }
        else if (op == "wpa2") {
            std::string set = k.str("set"); Crypto::WPA2Decrypter d; if (set == "ccmp_packets") d.add_ap_data("Induction", "Coherer"); else if (set == "ccmp_qos_packets") d.add_ap_data("password1", "Testing"); else d.add_ap_data("libtinstest", "NODO");
            for (auto& f : wpa2_fix(set)) { RadioTap r(f.second.data(), (uint32_t)f.second.size()); bool ok = d.decrypt(r); h = Hu(h, ok); if (ok) { PDU::serialization_type s = r.serialize(); h = H(h, s.data(), s.size()); } }
            h = Hu(h, d.get_keys().size());
        }
        else if (op == "ccmp") {
            Bytes f = k.bytes("f"), ptk = k.bytes("ptk"), b = k.bytes("bss"), sa = k.bytes("sta"); ptk.resize(80, 0); Crypto::WPA2Decrypter d;
            d.add_decryption_keys(Crypto::WPA2Decrypter::addr_pair(HWAddress<6>(b.data()), HWAddress<6>(sa.data())), Crypto::WPA2::SessionKeys(Crypto::WPA2::SessionKeys::ptk_type(ptk.begin(), ptk.end()), true));
            std::unique_ptr<PDU> p(Dot11::from_bytes(f.data(), (uint32_t)f.size())); bool ok = d.decrypt(*p); h = Hu(h, ok); if (ok) { PDU::serialization_type s2 = p->serialize(); h = H(h, s2.data(), s2.size()); }
        }
        else if (op == "pmk") { Crypto::WPA2::SupplicantData sd(k.str("psk"), k.str("ssid")); h = H(h, sd.pmk().data(), sd.pmk().size()); h = Hs(h, sd.ssid()); }
        else if (op == "dns") {
            DNS d; d.id((uint16_t)k.num("id")); int n = (int)k.num("n"); for (int i = 0; i < n; ++i) { d.add_query(DNS::query(fmt("host%d.example%d.com", i, (int)k.num("id") % 7), DNS::A, DNS::INTERNET)); d.add_answer(DNS::resource(fmt("host%d.example.com", i), fmt("10.0.%d.%d", i, n), DNS::A, DNS::INTERNET, 300 + i)); }
            PDU::serialization_type s = d.serialize(); h = H(h, s.data(), s.size()); DNS e(s.data(), (uint32_t)s.size()); for (auto& q : e.queries()) h = Hs(h, q.dname()); for (auto& a : e.answers()) h = Hs(h, a.data());
        }
        else if (op == "addr") {
            uint32_t v = (uint32_t)k.u64("v"); IPv4Address a(v); h = Hs(h, a.to_string()); IPv4Address b(a.to_string()); h = Hu(h, (uint32_t)b); IPv6Address c(fmt("2001:db8::%x:%x", v & 0xffff, v >> 16)); h = Hs(h, c.to_string());
            HWAddress<6> m(fmt("00:11:22:%02x:%02x:%02x", v & 0xff, (v >> 8) & 0xff, (v >> 16) & 0xff)); h = Hs(h, m.to_string()); IPv4Range r = a / (int)(24 + v % 8); uint64_t cnt = 0; for (auto it = r.begin(); it != r.end(); ++it) { h = Hu(h, (uint32_t)*it); if (++cnt > 300) break; }
        }
        else if (op == "addrclass") {   // classification helpers over addresses of every class (private networks, loopback, multicast, broadcast)
            uint32_t v = (uint32_t)k.u64("v"); const std::string cand[8] = { fmt("10.%u.%u.1", v & 0xff, (v >> 8) & 0xff), fmt("172.%u.%u.9", 16 + (v & 15), (v >> 8) & 0xff), fmt("192.168.%u.%u", v & 0xff, (v >> 16) & 0xff), fmt("127.0.%u.1", v & 0xff), fmt("%u.1.2.3", 224 + (v & 15)), "255.255.255.255", fmt("11.%u.0.1", v & 0xff), fmt("172.%u.0.1", 32 + (v & 7)) };
            for (int i = 0; i < 8; ++i) { IPv4Address a(cand[(i + v) % 8]); h = Hu(h, (a.is_private() ? 1 : 0) | (a.is_loopback() ? 2 : 0) | (a.is_multicast() ? 4 : 0) | (a.is_unicast() ? 8 : 0) | (a.is_broadcast() ? 16 : 0)); }
            const std::string c6[4] = { "::1", fmt("ff02::%x", v & 0xffff), fmt("fe80::%x", v & 0xffff), fmt("2001:db8::%x", v & 0xffff) };
            for (int i = 0; i < 4; ++i) { IPv6Address a(c6[(i + v) % 4]); h = Hu(h, (a.is_loopback() ? 1 : 0) | (a.is_multicast() ? 2 : 0) | (a.is_local_unicast() ? 4 : 0)); }
            HWAddress<6> m(fmt("%02x:11:22:33:44:55", v & 0xff)); h = Hu(h, (m.is_broadcast() ? 1 : 0) | (m.is_multicast() ? 2 : 0) | (m.is_unicast() ? 4 : 0));
        }
        else if (op == "pcapwrite") {   // a thread-private PacketWriter (its own savefile handle; the bytes go to /dev/null), packets stamped explicitly
            uint32_t v = (uint32_t)k.u64("v"); PacketWriter w("/dev/null", DataLinkType<EthernetII>());
            for (int i = 0; i < 3; ++i) { EthernetII e = EthernetII("00:01:02:03:04:05", "00:0a:0b:0c:0d:0e") / IP(IPv4Address(fmt("10.2.%u.%u", v & 0xff, i)), IPv4Address("10.0.0.1")) / UDP((uint16_t)(v >> 16), 53) / RawPDU(fmt("w-%u-%d", v, i));
                struct timeval tv; tv.tv_sec = (time_t)(1600000000u + (v & 0xffff) + i); tv.tv_usec = (suseconds_t)((v >> 8) % 1000000); Packet pk(e, Timestamp(tv)); w.write(pk); h = Hu(h, e.size()); }
        }
        else if (op == "userpdu") {     // frames whose upper layer is an application-defined PDU type registered before the threads started
            uint32_t v = (uint32_t)k.u64("v"); Bytes pl = k.bytes("pl");
            for (int i = 0; i < 3; ++i) { const bool second = ((v >> i) & 1) != 0;
                if ((v >> 8) & 1) { IP ip = IP("10.0.0.2", "10.0.0.1") / RawPDU(pl.data(), (uint32_t)pl.size()); ip.protocol(second ? 254 : 253); PDU::serialization_type sb = ip.serialize(); sb[9] = second ? 254 : 253; IP back(sb.data(), (uint32_t)sb.size()); h = Hu(h, back.inner_pdu() ? (uint64_t)back.inner_pdu()->pdu_type() : 0); h = Hu(h, back.inner_pdu() ? back.inner_pdu()->size() : 0); if (!back.inner_pdu() || back.inner_pdu()->pdu_type() != (PDU::PDUType)(PDU::USER_DEFINED_PDU + (second ? 2 : 1))) h = Hu(h, 0xbad); }
                else { Bytes f(14, 0); f[12] = 0x88; f[13] = second ? 0xb6 : 0xb5; f.insert(f.end(), pl.begin(), pl.end()); EthernetII back(f.data(), (uint32_t)f.size()); h = Hu(h, back.inner_pdu() ? (uint64_t)back.inner_pdu()->pdu_type() : 0); if (!back.inner_pdu() || back.inner_pdu()->pdu_type() != (PDU::PDUType)(PDU::USER_DEFINED_PDU + (second ? 4 : 3))) h = Hu(h, 0xbad); } }
        }
        else if (op == "build") {
            uint32_t v = (uint32_t)k.u64("v"); EthernetII e = EthernetII("00:01:02:03:04:05", "00:0a:0b:0c:0d:0e") / IP(IPv4Address(fmt("10.1.%u.%u", v & 0xff, (v >> 8) & 0xff)), IPv4Address("10.0.0.1")) / TCP((uint16_t)(v >> 16), 1000) / RawPDU(fmt("payload-%u", v));
            e.rfind_pdu<TCP>().mss((uint16_t)(v & 0x7fff)); e.rfind_pdu<TCP>().seq(v); PDU::serialization_type s = e.serialize(); h = H(h, s.data(), s.size()); EthernetII f(s.data(), (uint32_t)s.size()); h = Hu(h, f.rfind_pdu<TCP>().mss());
            // management frame with the WPA2-PSK RSN preset, ICMP / ICMPv6 errors with RFC 4884 extensions, IPv6 with a routing-less extension chain, DHCP
            { Dot11Beacon b; b.addr1(Dot11::BROADCAST); b.addr2(HWAddress<6>(fmt("00:01:02:03:%02x:%02x", v & 0xff, (v >> 8) & 0xff))); b.addr3(b.addr2()); b.ssid(fmt("net-%u", v % 1000)); b.ds_parameter_set((uint8_t)(1 + v % 13)); b.supported_rates(Dot11ManagementFrame::rates_type(3, 1.0f + (float)(v % 5)));
              { int ntrip = 1 + (int)(v % 4); std::vector<uint8_t> fc((size_t)ntrip, (uint8_t)(1 + v % 11)), nc((size_t)ntrip, (uint8_t)(1 + (v >> 4) % 13)), mp((size_t)ntrip, (uint8_t)(10 + (v >> 8) % 20)); b.country(Dot11ManagementFrame::country_params((v & 16) ? "US " : "DE ", fc, nc, mp)); }
              b.rsn_information(RSNInformation::wpa2_psk()); PDU::serialization_type sb = b.serialize(); h = H(h, sb.data(), sb.size()); Dot11Beacon pb(sb.data(), (uint32_t)sb.size()); RSNInformation ri = pb.rsn_information(); h = Hu(h, ri.pairwise_cyphers().size()); h = Hu(h, ri.akm_cyphers().size()); }
            // (which of the two families comes first depends on the op's value: nothing may depend on who asked first)
            for (int pass = 0; pass < 2; ++pass) { const bool v6_now = ((v >> 2) & 1) ? pass == 0 : pass == 1;
            if (!v6_now){ Bytes quoted((size_t)(20 + v % 150), (uint8_t)v); ICMP ic(ICMP::TIME_EXCEEDED); ic.inner_pdu(RawPDU(quoted.data(), (uint32_t)quoted.size())); Bytes ep((size_t)(4 + (v >> 3) % 12), 0x42); ic.extensions().add_extension(ICMPExtension(1, 1)); { ICMPExtension ex(2, (uint8_t)(v % 7)); ex.payload(ICMPExtension::payload_type(ep.begin(), ep.end())); ic.extensions().add_extension(ex); } if (v & 1) ic.use_length_field(true);
              IP ip4 = IP("10.0.0.9", "10.0.0.1") / ic; PDU::serialization_type s4 = ip4.serialize(); h = H(h, s4.data(), s4.size()); try { IP back(s4.data(), (uint32_t)s4.size()); h = Hu(h, back.rfind_pdu<ICMP>().has_extensions()); h = Hu(h, back.rfind_pdu<ICMP>().length()); } catch (exception_base& e) { h = Hs(h, typeid(e).name()); } }
            else{ Bytes quoted((size_t)(40 + (v >> 5) % 150), (uint8_t)(v >> 8)); ICMPv6 i6(ICMPv6::TIME_EXCEEDED); i6.inner_pdu(RawPDU(quoted.data(), (uint32_t)quoted.size())); i6.extensions().add_extension(ICMPExtension(1, 1)); if (v & 2) i6.use_length_field(true);
              IPv6 ip6 = IPv6("2001:db8::1", "2001:db8::2") / i6; PDU::serialization_type s6 = ip6.serialize(); h = H(h, s6.data(), s6.size()); try { IPv6 back(s6.data(), (uint32_t)s6.size()); h = Hu(h, back.rfind_pdu<ICMPv6>().has_extensions()); h = Hu(h, back.rfind_pdu<ICMPv6>().length()); } catch (exception_base& e) { h = Hs(h, typeid(e).name()); } }
            }
            { DHCP dh; dh.type(DHCP::DISCOVER); dh.hostname(fmt("host-%u", v % 997)); dh.requested_ip(IPv4Address(fmt("10.9.%u.%u", v & 0xff, (v >> 8) & 0xff))); dh.end(); PDU::serialization_type sd = dh.serialize(); h = H(h, sd.data(), sd.size()); DHCP back(sd.data(), (uint32_t)sd.size()); h = Hs(h, back.hostname()); }
            RadioTap rt; rt.channel(2412 + v % 60, 0xa0); rt.rate((uint8_t)(v % 100)); rt.dbm_signal((int8_t)-(int)(v % 90)); rt.inner_pdu(Dot11Data()); PDU::serialization_type s2 = rt.serialize(); h = H(h, s2.data(), s2.size());
        }
        else if (op == "follow") {
            if (!ts.fol) { ts.fol.reset(new TCPIP::StreamFollower()); ThreadState* self = &ts; ts.fol->new_stream_callback([self](TCPIP::Stream& s) { s.client_data_callback([self](TCPIP::Stream& x) { self->fol_bytes = fnv1a(x.client_payload().data(), x.client_payload().size(), self->fol_bytes); }); s.server_data_callback([self](TCPIP::Stream& x) { self->fol_bytes = fnv1a(x.server_payload().data(), x.server_payload().size(), self->fol_bytes); }); }); }
            Bytes f = k.bytes("f"); EthernetII e(f.data(), (uint32_t)f.size()); Packet pk(e, Timestamp(std::chrono::microseconds(k.num("ts")))); ts.fol->process_packet(pk); h = Hu(h, ts.fol_bytes);
        }
        else if (op == "legacy") {   // the legacy follower on a private little trace: stream ids and payloads go into the digest
            uint32_t v = (uint32_t)k.u64("v"); TCPStreamFollower lf; std::vector<std::unique_ptr<PDU> > own; std::vector<PDU*> trace; uint32_t cisn = v, sisn = v * 7 + 1; IPv4Address ca(fmt("10.3.%u.1", v & 0xff)), sa("10.3.0.2");
            auto mk = [&](bool fromc, uint32_t seq, uint32_t ack, int flags, const std::string& pl) { IP* ip = new IP(fromc ? sa : ca, fromc ? ca : sa); TCP t(fromc ? 80 : 1234, fromc ? 1234 : 80); t.seq(seq); t.ack_seq(ack); t.flags((small_uint<12>)flags); if (!pl.empty()) t.inner_pdu(RawPDU(pl)); ip->inner_pdu(t); own.emplace_back(ip); trace.push_back(ip); };
            mk(true, cisn, 0, TCP::SYN, ""); mk(false, sisn, cisn + 1, TCP::SYN | TCP::ACK, ""); mk(true, cisn + 1, sisn + 1, TCP::ACK | TCP::PSH, fmt("hello-%u", v)); mk(false, sisn + 1, cisn + 1, TCP::ACK | TCP::PSH, "world"); mk(true, cisn + 1 + (uint32_t)fmt("hello-%u", v).size(), sisn + 6, TCP::FIN | TCP::ACK, "");
            uint64_t hh = h; lf.follow_streams(trace.begin(), trace.end(), [&hh](TCPStream& st) { hh = Hu(hh, st.id()); hh = H(hh, st.client_payload().data(), st.client_payload().size()); hh = H(hh, st.server_payload().data(), st.server_payload().size()); return true; }, [&hh](TCPStream& st) { hh = Hu(hh, st.id() + 1000); }); h = hh;
        }
        else if (op == "wep") { const auto& fx = gen::Fixtures::get(); Crypto::WEPDecrypter d; d.add_password("00:12:bf:12:32:29", k.num("bad") ? "\x1f\x1f\x1f\x1f\x1e" : "\x1f\x1f\x1f\x1f\x1f"); for (auto& fr : fx.by.count("dot11") ? fx.by.find("dot11")->second : std::vector<std::pair<std::string, Bytes> >()) { if (fr.first.find("wep_decrypt") == std::string::npos) continue; std::unique_ptr<PDU> p(Dot11::from_bytes(fr.second.data(), (uint32_t)fr.second.size())); bool ok = d.decrypt(*p); h = Hu(h, ok); if (ok) { PDU::serialization_type s = p->serialize(); h = H(h, s.data(), s.size()); } } }
    }
    catch (Tins::exception_base& e) { h = Hs(h, typeid(e).name()); }
    catch (std::exception& e) { h = Hs(h, std::string("std:") + typeid(e).name()); }
    return h;
}

// ============================================================================ "run alone" reference in a pristine process
// Second half of the property: each thread obtains the results the same calls produce when run ALONE. The sequential pass of a run
// shares its process with the warm-up and with every earlier run, so state that is frozen or accumulated process-wide (a function-local
// static initialised from the first caller's arguments, a static object that grows with every call) is invisible to it. Before the first
// libtins call of a process a pristine server is forked off; for sampled runs it forks one fresh child per logical thread, which executes
// only that thread's ops (no warm-up, no other ops, monitor off) and reports the digest.
#include <sys/socket.h>
#include <sys/prctl.h>
#include <poll.h>
namespace alone {
static int fd = -1; static pid_t server = -1;
static bool rd(int f, void* b, size_t n, int timeout_ms) { uint8_t* p = (uint8_t*)b; while (n) { struct pollfd pf = { f, POLLIN, 0 }; int r = poll(&pf, 1, timeout_ms); if (r <= 0) return false; ssize_t k = read(f, p, n); if (k <= 0) return false; p += k; n -= (size_t)k; } return true; }
static bool wr(int f, const void* b, size_t n) { const uint8_t* p = (const uint8_t*)b; while (n) { ssize_t k = write(f, p, n); if (k <= 0) return false; p += k; n -= (size_t)k; } return true; }
static void serve(int sfd) {
    for (;;) {
        uint32_t len = 0; if (!rd(sfd, &len, 4, -1) || len > (64u << 20)) _exit(0); std::string txt(len, 0); if (len && !rd(sfd, &txt[0], len, 10000)) _exit(0);
        Plan p; Plan::parse(txt, p); int K = (int)p.cfg.num("threads", 2); std::vector<std::vector<KV> > ops(K);
        for (auto& l : p.steps) { KV k(l); int t = (int)k.num("t"); if (t >= 0 && t < K) ops[t].push_back(k); }
        std::vector<uint64_t> out(K, 0); std::vector<uint8_t> ok(K, 0);
        for (int t = 0; t < K; ++t) {
            int pf[2]; if (pipe(pf) != 0) continue; pid_t c = fork();
            if (c == 0) { close(pf[0]); alarm(20); ThreadState ts; uint64_t h = 0xC18; for (auto& k : ops[t]) h = run_op(k, ts, h); wr(pf[1], &h, 8); _exit(0); }
            close(pf[1]); uint64_t h = 0; if (c > 0 && rd(pf[0], &h, 8, 25000)) { out[t] = h; ok[t] = 1; } close(pf[0]); if (c > 0) { int stt; waitpid(c, &stt, 0); }
        }
        uint32_t k32 = (uint32_t)K; if (!wr(sfd, &k32, 4) || !wr(sfd, out.data(), 8 * (size_t)K) || !wr(sfd, ok.data(), (size_t)K)) _exit(0);
    }
}
static void start() { if (fd >= 0) return; int sv[2]; if (socketpair(AF_UNIX, SOCK_STREAM, 0, sv) != 0) return; fflush(0); pid_t c = fork(); if (c == 0) { close(sv[0]); prctl(PR_SET_PDEATHSIG, SIGKILL); signal(SIGALRM, SIG_DFL); alarm(0); serve(sv[1]); _exit(0); } close(sv[1]); if (c < 0) { close(sv[0]); return; } fd = sv[0]; server = c; }
static bool query(const Plan& p, std::vector<uint64_t>& out, std::vector<uint8_t>& ok) {
    if (fd < 0) return false; std::string txt = p.text(); uint32_t len = (uint32_t)txt.size(); if (!wr(fd, &len, 4) || !wr(fd, txt.data(), len)) return false;
    uint32_t K = 0; if (!rd(fd, &K, 4, 120000) || K > 64) return false; out.assign(K, 0); ok.assign(K, 0); return rd(fd, out.data(), 8 * (size_t)K, 10000) && rd(fd, ok.data(), K, 10000);
}
}

struct ThrEngine : Engine {
    const char* name() const { return "thr"; }
    std::string components_json() const {
        return "{\"real\":[\"all of libtins (clang, trace-pc-guard + trace-loads + trace-stores instrumentation)\",\"OpenSSL, libpcap, libstdc++ (uninstrumented, never preempted inside)\",\"real pthreads\"],"
               "\"stub\":[\"thread scheduler: threads parked on semaphores, one runs, preemption at basic-block granularity chosen by the seeded PRNG\",\"__cxa_guard_* wrappers (no preemption inside one-time initialisation)\",\"workload generator sim/gen + fixtures\"]}";
    }
    std::string rule_text(const std::string&) const {
        return "one run = 2-15 threads, each with a private list of library calls on thread-private objects (parse+inspect+clone+serialize frames of all link types, IPv4 reassembly with a private reassembler, WPA2/WEP decryption with private decrypters incl. PBKDF2 and the 4-way handshake, DNS build/parse, address parse/print/range iteration, packet building, a private StreamFollower); the schedule is a seeded sequence of (basic-block budget, next thread) choices. Oracles: (a) no location in the executable's static storage is written by one thread outside one-time initialisation and accessed by another; (b) every thread's digest equals the digest of its calls run alone. distinct = distinct (workload, schedule hash); non-trivial = at least 2 threads executed >= 1 context switch each inside library code";
    }
    Plan generate(uint64_t seed, const std::string&, const std::string& tier) {
        Rng root(seed); Rng cfg = root.fork("cfg"), wl = root.fork("workload");
        Plan p; p.engine = "thr"; p.mode = "thr"; p.seed = seed; p.cfg.set("property", "C18");
        int K = cfg.chance(0.7) ? (int)cfg.range(2, 4) : (int)cfg.range(5, 15); int per = (int)cfg.range(3, tier == "thorough" ? 40 : 14);
        int bclass = (int)cfg.below(3); int blo = 1, bhi = bclass == 0 ? 50 : bclass == 1 ? 2000 : 60000;
        p.cfg.set("threads", K).setu("sched", root.fork("sched").next()).set("blo", blo).set("bhi", bhi).set("seqfirst", cfg.chance(0.5) ? 1 : 0).set("alone", root.fork("alone").chance(0.4) ? 1 : 0);
        const int dlts[7] = { gen::DLT_EN10MB_, gen::DLT_EN10MB_, gen::DLT_RAW_, gen::DLT_IEEE802_11_, gen::DLT_IEEE802_11_RADIO_, gen::DLT_LINUX_SLL_, gen::DLT_NULL_ };
        // a small TCP trace shared as data (each thread feeds its own follower)
        for (int t = 0; t < K; ++t) {
            bool same_kind = cfg.chance(0.4); int fixed = (int)cfg.below(8); int64_t ft = 1000;
            for (int i = 0; i < per; ++i) {
                KV k; k.set("t", t); int kind = same_kind ? fixed : (int)cfg.below(8);
                switch (kind) {
                    case 0: case 1: { int dlt = dlts[cfg.below(7)]; gen::Frame f = gen::frame_for(wl, dlt); k.set("op", "parse").set("dlt", dlt).set("f", f.bytes); break; }
                    case 2: k.set("op", "frag").set("pl", wl.bytes((size_t)cfg.range(20, 400))).set("mtu", (int64_t)cfg.range(8, 120)).set("id", (int64_t)cfg.range(1, 65535)).set("ord", (int64_t)cfg.below(3)); break;
                    case 3: if (cfg.chance(0.35)) {   // a CCMP-protected data frame built by the independent implementation: 3- or 4-address, QoS or not, to/from the DS; the key is supplied directly
                                wlan::DataSpec d; int shape = (int)cfg.below(4); d.to_ds = shape == 0 || shape == 3; d.from_ds = shape == 1 || shape == 3; d.qos = cfg.chance(0.6); d.tid = (uint8_t)cfg.below(16); d.seq = (uint16_t)cfg.below(4096); d.protected_ = true;
                                Mac bss = Mac::of((uint8_t)(0x10 + t)), sta = Mac::of((uint8_t)(0x40 + t)), peer = Mac::of(0x77), peer2 = Mac::of(0x78); if (shape == 0) { d.a1 = bss; d.a2 = sta; d.a3 = peer; } else if (shape == 1) { d.a1 = sta; d.a2 = bss; d.a3 = peer; } else if (shape == 2) { d.a1 = peer; d.a2 = sta; d.a3 = bss; } else { d.a1 = peer; d.a2 = sta; d.a3 = bss; d.a4 = peer2; }   /* 4-address frame: libtins looks the key up under (addr2, addr3) */
                                Bytes ptk = wl.bytes(64), plain = wlan::llc_snap(0x88b5, wl.bytes((size_t)cfg.range(1, 120))); Bytes f = wlan::data_header(d); wlan::Frame fh = wlan::parse_dot11(f.data(), f.size()); Bytes body = wcrypto::ccmp_encrypt(&ptk[32], fh.hdr(), (uint64_t)cfg.range(1, 1 << 30), 0, plain); putb(f, body);
                                k.set("op", "ccmp").set("f", f).set("ptk", ptk).set("bss", Bytes(bss.b, bss.b + 6)).set("sta", Bytes(sta.b, sta.b + 6)); break; }
                            if (cfg.chance(0.5)) { k.set("op", "pmk").set("psk", fmt("pass%llu", (unsigned long long)(cfg.next() % 100000))).set("ssid", fmt("net%llu", (unsigned long long)(cfg.next() % 1000))); break; }
                            k.set("op", "wpa2").set("set", cfg.chance(0.4) ? "ccmp_packets" : cfg.chance(0.5) ? "tkip_packets" : "ccmp_qos_packets"); break;
                    case 4: k.set("op", "dns").set("id", (int64_t)cfg.range(0, 65535)).set("n", (int64_t)cfg.range(1, 6)); break;
                    case 5: { Rng ax = root.fork(fmt("addrx%d.%d", t, i).c_str()); int sel = (int)ax.below(10); if (sel < 3) { k.set("op", "addrclass").setu("v", ax.next() & 0xffffffffu); break; } if (sel >= 8) { k.set("op", "pcapwrite").setu("v", ax.next() & 0xffffffffu); break; } if (sel < 6) { k.set("op", "userpdu").setu("v", ax.next() & 0xffffffffu).set("pl", ax.bytes((size_t)ax.range(1, 60))); break; } }
                        k.set("op", "addr").setu("v", cfg.next() & 0xffffffffu); break;
                    case 6: if (cfg.chance(0.25)) { k.set("op", "legacy").setu("v", cfg.next() & 0xffffffffu); break; } k.set("op", "build").setu("v", cfg.next() & 0xffffffffu); break;
                    default: { if (cfg.chance(0.2)) { k.set("op", "wep").set("bad", cfg.chance(0.3) ? 1 : 0); break; }
                        TcpSeg s; s.sport = 1000; s.dport = 80; s.seq = 100 + (uint32_t)(i * 10); s.ack = 1; s.flags = i == 0 ? TH_SYN : (TH_ACK | TH_PSH); if (i) s.payload = wl.bytes(10); Addr a = Addr::v4(10, 0, (uint8_t)t, 1), b = Addr::v4(10, 0, (uint8_t)t, 2); if (i == 0) s.seq = 109 - 10;
                        k.set("op", "follow").set("ts", ft += 1000).set("f", tcp_frame(s, a, b, Mac::of(1), Mac::of(2), (uint16_t)i)); break; }
                }
                p.steps.push_back(k.line());
            }
        }
        return p;
    }

    Verdict execute(const Plan& p, RunStats& st, Trace& tr) {
        int K = (int)p.cfg.num("threads", 2); std::vector<std::vector<KV> > ops(K);
        for (auto& l : p.steps) { KV k(l); int t = (int)k.num("t"); if (t >= 0 && t < K) { ops[t].push_back(k); st.inc("probe.op." + k.str("op")); } else st.inc("probe.op_of_no_thread"); }
        std::vector<uint64_t> seq(K, 0), con(K, 0);
        // one-time initialisations (function-local statics, OpenSSL/libpcap lazy setup) must not depend on the history of the
        // process: the first execution in any process (worker, minimiser child, replay) first runs every op of the plan once, unmonitored
        // one-time initialisations (lazy set-up inside OpenSSL/libpcap/libstdc++, function-local statics) must not depend on the
        // history of the process: every process (worker, minimiser child, replay) first runs a FIXED generic warm-up of every op
        // kind, unmonitored, owned by the lifetime arena. It deliberately does not use the plan's own values, so that a cache or
        // registry keyed by input values is still populated by the threads of the run (and seen by the monitor).
        { static bool warmed = false; if (!warmed) { alone::start(); warmed = true; arena::init(); mon::tl_logical = arena::LIFETIME; Rng wr(424242); ThreadState ts;
            const int dl[7] = { gen::DLT_EN10MB_, gen::DLT_RAW_, gen::DLT_IEEE802_11_, gen::DLT_IEEE802_11_RADIO_, gen::DLT_LINUX_SLL_, gen::DLT_NULL_, gen::DLT_PPI_ };
            for (int i = 0; i < 7; ++i) for (int j = 0; j < 40; ++j) { gen::Frame f = gen::frame_for(wr, dl[i]); KV k; k.set("op", "parse").set("dlt", dl[i]).set("f", f.bytes); run_op(k, ts, 0); }
            const char* sets[3] = { "ccmp_packets", "tkip_packets", "ccmp_qos_packets" }; for (int i = 0; i < 3; ++i) { KV k; k.set("op", "wpa2").set("set", sets[i]); run_op(k, ts, 0); }
            { KV k; k.set("op", "frag").set("pl", Bytes(64, 1)).set("mtu", 16).set("id", 1).set("ord", 0); run_op(k, ts, 0); KV d; d.set("op", "dns").set("id", 1).set("n", 2); run_op(d, ts, 0); KV a; a.set("op", "addr").setu("v", 12345); run_op(a, ts, 0); { KV ac; ac.set("op", "addrclass").setu("v", 54321); run_op(ac, ts, 0); KV pw; pw.set("op", "pcapwrite").setu("v", 99); run_op(pw, ts, 0); KV up; up.set("op", "userpdu").setu("v", 0x1ff).set("pl", Bytes(8, 7)); run_op(up, ts, 0); up.setu("v", 0x0aa); run_op(up, ts, 0); } KV b; b.set("op", "build").setu("v", 777); run_op(b, ts, 0); { KV lg; lg.set("op", "legacy").setu("v", 5); run_op(lg, ts, 0); } KV w; w.set("op", "wep").set("bad", 0); run_op(w, ts, 0);
              KV p; p.set("op", "pmk").set("psk", "warmup-pass").set("ssid", "warmup-net"); run_op(p, ts, 0);
              TcpSeg sg; sg.sport = 1; sg.dport = 2; sg.seq = 5; sg.flags = TH_SYN; KV fo; fo.set("op", "follow").set("ts", 1).set("f", tcp_frame(sg, Addr::v4(1, 1, 1, 1), Addr::v4(2, 2, 2, 2), Mac::of(1), Mac::of(2))); run_op(fo, ts, 0); }
            ts = ThreadState(); mon::tl_logical = -1; } }
        sched::on_thread_start = mon::note_stack; mon::note_stack(); mon::reset(); arena::reset(); memset(unsafe::callers, 0, sizeof unsafe::callers);
        auto sequential = [&]() { for (int t = 0; t < K; ++t) { ThreadState ts; uint64_t h = 0xC18; mon::tl_logical = t; mon::on = true; for (auto& k : ops[t]) h = run_op(k, ts, h); mon::on = false; mon::tl_logical = -1; seq[t] = h; } };
        auto concurrent = [&]() {
            std::vector<std::function<void()> > bodies; for (int t = 0; t < K; ++t) bodies.push_back([&, t]() { ThreadState ts; uint64_t h = 0xC18; mon::tl_logical = t; for (auto& k : ops[t]) h = run_op(k, ts, h); mon::tl_logical = -1; con[t] = h; });
            mon::on = true; sched::run(bodies, p.cfg.u64("sched", 1), (int)p.cfg.num("blo", 1), (int)p.cfg.num("bhi", 1000)); mon::on = false; };
        snap::take();
        if (p.cfg.num("seqfirst")) { sequential(); concurrent(); } else { concurrent(); sequential(); }
        const std::string static_changed = snap::changed(); st.inc("chk.library_static_objects_unchanged", (uint64_t)snap::objs.size());
        st.inc("chk.thread_digest", (uint64_t)K); st.inc("fault.context_switch", sched::switches); st.inc("probe.scheduler_steps", sched::steps);
        st.inc("probe.static_reads", mon::n_static_reads); st.inc("probe.static_writes_unguarded", mon::n_static_writes); st.inc("probe.static_writes_in_guarded_init", mon::n_guarded_writes); st.inc("probe.cross_thread_heap_accesses", mon::n_cross_heap); st.inc("probe.accesses_to_memory_allocated_outside_threads", mon::n_other_heap);
        tr.add(fmt("threads=%d steps=%llu switches=%llu schedhash=%llu", K, (unsigned long long)sched::steps, (unsigned long long)sched::switches, (unsigned long long)sched::sched_hash));
        // memory allocated by a thread's calls and still alive after all of its objects were destroyed is retained by the library
        // (a global registry or cache that grows with use): hidden shared state, whatever the access pattern of this particular run
        { int64_t kept = 0; int who = -1; for (int t = 0; t < K && t < arena::LIFETIME; ++t) if (arena::live_blocks[t] > 0) { kept += arena::live_blocks[t]; who = t; } st.inc("chk.thread_allocations_released");
          if (kept > 0) return Verdict::bad("thr:thread-allocations-retained-by-library", fmt("%lld heap blocks allocated by the calls of thread %d are still referenced after all of the thread's objects were destroyed", (long long)kept, who)); }
        if (!static_changed.empty()) { std::string first = static_changed.substr(0, static_changed.find(';')); for (char& c : first) if (c == ' ') c = '_'; return Verdict::bad("thr:static-object-changed:" + first, "static object(s) of the library hold other contents after the threads' calls than before them (process-wide mutable state behind calls on thread-private objects): " + static_changed); }
        // (a) shared-access rule
        std::set<std::string> shared, read_syms;
        for (size_t i = 0; i < mon::TAB; ++i) { const mon::Ent& e = mon::tab[i]; if (!e.a) continue; st.inc("chk.static_location");
            if (e.writers) { uint32_t all = e.writers | e.readers; if (all & (all - 1)) shared.insert(arena::contains((void*)(e.a << 3)) ? (arena::owner((void*)(e.a << 3)) == arena::LIFETIME ? std::string("heap-object-created-by-one-time-initialisation") : std::string("heap-object-owned-by-another-thread")) : static_symbol(e.a << 3)); }
            else if (read_syms.size() < 64) { uint32_t r = e.readers; if (r & (r - 1)) read_syms.insert(static_symbol(e.a << 3)); } }
        for (auto& s : read_syms) st.inc("probe.static_read_by_2+_threads." + s.substr(0, 60));
        if (!shared.empty()) { std::string first = *shared.begin(); for (char& c : first) if (c == ' ') c = '_'; std::string all; for (auto& s : shared) all += s + "; "; return Verdict::bad("thr:shared-write:" + first, "hidden shared mutable state inside libtins, written by one thread and accessed by another: " + all); }
        for (int i = 0; i < 15; ++i) { uint32_t m = unsafe::callers[i]; if (m) st.inc(std::string("probe.libc_call.") + unsafe::names[i]); if (m & (m - 1)) return Verdict::bad(std::string("thr:unsafe-libc:") + unsafe::names[i], std::string("library code called ") + unsafe::names[i] + "(), which keeps hidden static state, from more than one thread"); }
        // (b) result equality
        for (int t = 0; t < K; ++t) { tr.add(fmt("thread %d seq=%llx con=%llx", t, (unsigned long long)seq[t], (unsigned long long)con[t])); if (seq[t] != con[t]) { std::string kinds; std::set<std::string> ks; for (auto& k : ops[t]) ks.insert(k.str("op")); for (auto& s : ks) kinds += s + ","; return Verdict::bad("thr:result-differs", fmt("thread %d (ops: %s) computed other results under interleaving than alone", t, kinds.c_str())); } }
        // (c) the same calls alone, in a fresh process (sampled runs)
        if (p.cfg.num("alone", 0)) { std::vector<uint64_t> al; std::vector<uint8_t> ok;
            if (!alone::query(p, al, ok) || (int)al.size() != K) st.inc("probe.alone_reference_unavailable");
            else for (int t = 0; t < K; ++t) { if (!ok[t]) { st.inc("probe.alone_reference_child_failed"); continue; } st.inc("chk.thread_digest_vs_alone"); tr.add(fmt("thread %d alone=%llx", t, (unsigned long long)al[t]));
                if (al[t] != seq[t]) { std::string kinds; std::set<std::string> ks; for (auto& k : ops[t]) ks.insert(k.str("op")); for (auto& x : ks) kinds += x + ","; return Verdict::bad("thr:result-differs-from-run-alone", fmt("thread %d (ops: %s) obtains other results in this process than the same calls produce alone in a fresh process: the outcome depends on what ran before in the process (state frozen or accumulated process-wide)", t, kinds.c_str())); } } }
        uint64_t wsig = 0; for (auto& l : p.steps) wsig = mix64(wsig, fnv1a(KV(l).str("op")));
        st.sched_sig = mix64(sched::sched_hash, wsig); st.nontrivial = sched::switches >= (uint64_t)K; st.sim_us = 0;
        st.states.insert(mix64((uint64_t)K * 8 + std::min<uint64_t>(sched::switches / 16, 7), wsig & 0xff));
        return Verdict();
    }
    std::string signature(const Plan&, const Verdict& v) { return v.cls; }
};

int main(int argc, char** argv) { ThrEngine e; return engine_main(e, argc, argv); }
