// Engine `wlan`: C09 - WEP / WPA2 (TKIP, CCMP) decryption.
// Real code: RadioTap / Dot11::from_bytes / Dot11Data / Dot11QoSData / SNAP / RSNEAPOL parsers, Dot11Beacon::ssid,
// RSNHandshakeCapturer, WPA2Decrypter (add_ap_data both forms, add_decryption_keys, callbacks), SessionKeys, WEPDecrypter,
// OpenSSL. Stubs: access points and stations (4-way handshake state machines with retransmission timers and MAC-level
// retries), the lossy 802.11 medium, the monitor-mode tap, and an independent implementation of the ciphers (sim/crypto.hpp).
#include "kernel.hpp"
#include "codec.hpp"
#include "crypto.hpp"
#include "wlan.hpp"
#include "gen.hpp"
#include <tins/tins.h>
#include <memory>
#include <fstream>

using namespace sim; using namespace codec; using namespace wlan;

extern "C" __attribute__((used)) const char* __asan_default_options() { return "exitcode=77:detect_leaks=0:abort_on_error=0:allocator_may_return_null=1"; }
extern "C" __attribute__((used)) const char* __ubsan_default_options() { return "print_stacktrace=1:halt_on_error=1"; }

enum Cipher { WEP40 = 0, WEP104 = 1, TKIP = 2, CCMP = 3 };
struct Bss { int id; Mac bssid; std::string ssid, pass; int cipher; Bytes wepkey; Bytes pmk; bool unreg; Bss() : id(0), cipher(0), unreg(false) {} };
struct KeyRec { int id, bss; Mac sta; Bytes ptk; int cipher; uint8_t anonce[32], snonce[32]; };     // ground truth of one completed or attempted key

static const char* PASSES[4] = { "password1", "correct horse", "Induction", "libtinstest" };
static const char* SSIDS[4] = { "Testing", "NODO", "Coherer", "home" };
static std::map<std::string, Bytes>& pmk_cache() { static std::map<std::string, Bytes> c; return c; }
static Bytes pmk_cached(const std::string& pass, const std::string& ssid) { std::string k = pass + "\n" + ssid; auto it = pmk_cache().find(k); if (it != pmk_cache().end()) return it->second; Bytes v = wcrypto::pmk_of(pass, ssid); pmk_cache()[k] = v; return v; }

struct TapRec { int64_t t; uint64_t ord; Bytes frame; std::string kind; int bss, sta, kid; Bytes plain; std::string bad; };

// ------------------------------------------------------------------------------------------------ the simulated world
struct World {
    EventQueue q; Rng rng; double loss, retry_p, tap_loss, eapol_corrupt_p = 0; std::vector<TapRec> tap; uint64_t ord; std::map<std::string, uint64_t> faults; std::vector<KeyRec> keys; std::vector<Bss> bss;
    World() : loss(0), retry_p(0), tap_loss(0), ord(0) {}
    void to_tap(const Bytes& f, const std::string& kind, int b, int s, int kid = -1, const Bytes& plain = Bytes(), const std::string& bad = "") {
        if (rng.chance(tap_loss)) { faults["fault.capture_loss"]++; return; } TapRec r; r.t = q.now; r.ord = ++ord; r.frame = f; r.kind = kind; r.bss = b; r.sta = s; r.kid = kid; r.plain = plain; r.bad = bad; tap.push_back(r); }
};
struct Station;
struct Ap { World& w; Bss& b; Ap(World& ww, Bss& bb) : w(ww), b(bb) {} };
struct Station {
    World& w; Bss& b; int id; Mac mac; Bytes pmk_sta;   // the PMK the station believes in (wrong passphrase => other PMK)
    // authenticator side state for this station
    uint64_t replay; uint8_t anonce[32], snonce[32]; int ap_state; /* 0 idle 1 m1 sent 2 m3 sent 3 done */ uint64_t ap_timer; int ap_tries; Bytes ap_ptk, sta_ptk; bool sta_has_ptk; uint64_t last_m1_rc, m3_rc; bool fresh_snonce; uint16_t seq_ap, seq_sta; uint64_t pn_ap, pn_sta; int cur_kid; bool installed_ap, installed_sta; int64_t proc_delay;
    Station(World& ww, Bss& bb, int i, const Mac& m) : w(ww), b(bb), id(i), mac(m), replay(0), ap_state(0), ap_timer(0), ap_tries(0), sta_has_ptk(false), last_m1_rc(0), m3_rc(0), fresh_snonce(false), seq_ap(1), seq_sta(1), pn_ap(1), pn_sta(1), cur_kid(-1), installed_ap(false), installed_sta(false), proc_delay(500) {}
    int desc_version() const { return b.cipher == CCMP ? 2 : 1; }
    // ---- frames
    Bytes eapol_frame(bool from_ap, const EapolKey& k, bool retry) { DataSpec d; d.from_ds = from_ap; d.to_ds = !from_ap; d.retry = retry; d.seq = from_ap ? seq_ap : seq_sta; if (from_ap) { d.a1 = mac; d.a2 = b.bssid; d.a3 = b.bssid; } else { d.a1 = b.bssid; d.a2 = mac; d.a3 = b.bssid; } Bytes f = data_header(d); putb(f, llc_snap(0x888e, eapol_bytes(k))); return f; }
    void air(bool from_ap, const EapolKey& k, const std::string& kind) {
        // one transmission + optional MAC-level retries (identical frame, Retry bit set) a little later
        Bytes f = eapol_frame(from_ap, k, false); if (from_ap) ++seq_ap; else ++seq_sta; transmit(from_ap, f, k, kind);
        if (w.rng.chance(w.retry_p)) { Bytes f2 = f; f2[1] |= 0x08; int64_t d = (int64_t)w.rng.range(50, 3000); EapolKey kk = k; w.faults["fault.mac_retry_duplicate"]++; w.q.after(d, [this, from_ap, f2, kk, kind]() { transmit(from_ap, f2, kk, kind + "+retry"); }); }
    }
    void transmit(bool from_ap, const Bytes& f, const EapolKey& k, const std::string& kind) {
        // the monitor's copy of a handshake message may be damaged (here: inside the MIC field, so the message keeps its class) while the
        // stations themselves exchange it intact: that exchange completes on the air but must not teach the decrypter a key
        if (w.eapol_corrupt_p > 0 && w.rng.chance(w.eapol_corrupt_p)) { Bytes ft = f; size_t eo = f.size() - eapol_bytes(k).size(); ft[eo + 81 + w.rng.below(16)] ^= (uint8_t)(1u << w.rng.below(8)); w.faults["fault.eapol_mic_damaged_at_tap"]++; w.to_tap(ft, kind + "+micdamage", b.id, id); }
        else w.to_tap(f, kind, b.id, id);
        if (w.rng.chance(w.loss)) { w.faults["fault.loss"]++; return; }
        EapolKey kk = k; int64_t d = 200 + (int64_t)w.rng.below(300) + proc_delay; if (from_ap) w.q.after(d, [this, kk]() { sta_rx(kk); }); else w.q.after(d, [this, kk]() { ap_rx(kk); });
    }
    void set_mic(EapolKey& k, const Bytes& ptk) { uint8_t mic[16]; wcrypto::eapol_mic(Bytes(ptk.begin(), ptk.begin() + 16), k.desc_version(), eapol_bytes(k, true), mic); memcpy(k.mic, mic, 16); }
    bool mic_ok(const EapolKey& k, const Bytes& ptk) { uint8_t mic[16]; wcrypto::eapol_mic(Bytes(ptk.begin(), ptk.begin() + 16), k.desc_version(), eapol_bytes(k, true), mic); return memcmp(mic, k.mic, 16) == 0; }
    // ---- authenticator
    void start_handshake() { ap_state = 1; ap_tries = 0; for (int i = 0; i < 32; ++i) anonce[i] = (uint8_t)w.rng.next(); installed_ap = false; send_m1(); }
    // the station re-associates: the authenticator starts over with a new per-association state (replay counter from 0, new ANonce),
    // whatever stage the previous exchange had reached; keys of the old association are no longer used
    uint64_t replay_base = 0;      // where this authenticator starts counting (64-bit field: large values, 2^32 crossings and the top bit are all legal)
    void reassociate() { replay = replay_base; ++ap_timer; ap_state = 0; ap_tries = 0; installed_ap = installed_sta = false; sta_has_ptk = false; last_m1_seen = 0; last_m1_rc = 0; m3_rc = 0; start_handshake(); }
    void send_m1() { EapolKey k; k.version = (uint8_t)(b.cipher == CCMP ? 2 : 1); k.desc_type = b.cipher == CCMP ? 2 : 254; k.key_info = (uint16_t)(desc_version() | 0x08 | 0x80); k.key_len = b.cipher == CCMP ? 16 : 32; k.replay = ++replay; last_m1_rc = k.replay; memcpy(k.nonce, anonce, 32); air(true, k, "m1"); arm(); }
    void send_m3() { EapolKey k; k.version = (uint8_t)(b.cipher == CCMP ? 2 : 1); k.desc_type = b.cipher == CCMP ? 2 : 254; k.key_info = (uint16_t)(desc_version() | 0x08 | 0x40 | 0x80 | 0x100 | (b.cipher == CCMP ? (0x200 | 0x1000) : 0)); k.key_len = b.cipher == CCMP ? 16 : 32; k.replay = ++replay; m3_rc = k.replay; memcpy(k.nonce, anonce, 32);
        k.data = w.rng.bytes(b.cipher == CCMP ? 56 : 24); set_mic(k, ap_ptk); air(true, k, "m3"); arm(); }
    void arm() { uint64_t g = ++ap_timer; int64_t d = (int64_t)w.rng.range(8000, 20000); w.q.after(d, [this, g]() { if (g != ap_timer || ap_state == 0 || ap_state == 3) return; if (++ap_tries > 4) { ap_state = 0; return; } w.faults["fault.eapol_timeout_retransmission"]++; if (ap_state == 1) send_m1(); else send_m3(); }); }
    void ap_rx(const EapolKey& k) {
        int m = k.msg();
        if (m == 2 && ap_state == 1 && k.replay == last_m1_rc) { Bytes ptk = wcrypto::ptk_of(b.pmk, b.bssid.b, mac.b, anonce, k.nonce); if (!mic_ok(k, ptk)) { w.faults["fault.m2_mic_invalid_at_ap"]++; return; } ap_ptk = ptk; memcpy(snonce, k.nonce, 32); ap_state = 2; ap_tries = 0; send_m3(); }
        else if (m == 4 && ap_state == 2 && k.replay == m3_rc && mic_ok(k, ap_ptk)) { ap_state = 3; ++ap_timer; installed_ap = true; pn_ap = 1; }
    }
    // ---- supplicant
    void sta_rx(const EapolKey& k) {
        int m = k.msg();
        if (m == 1) { uint8_t sn[32];
            // like real supplicants: the SNonce is renewed when the ANonce changes (or, for some, with every new replay counter); a MAC-level retry of the same message 1 gets the same answer
            bool same_attempt = sta_has_ptk && memcmp(last_anonce, k.nonce, 32) == 0 && (k.replay == last_m1_seen || !fresh_snonce);
            if (same_attempt) memcpy(sn, sta_snonce, 32); else { for (int i = 0; i < 32; ++i) sn[i] = (uint8_t)w.rng.next(); } memcpy(last_anonce, k.nonce, 32); last_m1_seen = k.replay; Bytes ptk = wcrypto::ptk_of(pmk_sta, b.bssid.b, mac.b, k.nonce, sn); sta_ptk = ptk; sta_has_ptk = true; memcpy(sta_snonce, sn, 32);
            EapolKey r; r.version = k.version; r.desc_type = k.desc_type; r.key_info = (uint16_t)(desc_version() | 0x08 | 0x100); r.key_len = 0; r.replay = k.replay; memcpy(r.nonce, sn, 32); r.data = w.rng.bytes(22); set_mic(r, sta_ptk); air(false, r, "m2"); }
        else if (m == 3 && sta_has_ptk && mic_ok(k, sta_ptk)) { EapolKey r; r.version = k.version; r.desc_type = k.desc_type; r.key_info = (uint16_t)(desc_version() | 0x08 | 0x100 | 0x200); r.key_len = 0; r.replay = k.replay; set_mic(r, sta_ptk); air(false, r, "m4");
            if (!installed_sta || sta_installed_ptk != sta_ptk) { installed_sta = true; sta_installed_ptk = sta_ptk; pn_sta = 1; KeyRec kr; kr.id = (int)w.keys.size(); kr.bss = b.id; kr.sta = mac; kr.ptk = sta_ptk; kr.cipher = b.cipher; memcpy(kr.anonce, k.nonce, 32); memcpy(kr.snonce, sta_snonce, 32); w.keys.push_back(kr); cur_kid = kr.id; } }
    }
    uint8_t sta_snonce[32]; uint8_t last_anonce[32]; uint64_t last_m1_seen = 0; Bytes sta_installed_ptk;
    // ---- protected data
    Bytes protect(const DataSpec& d0, const Bytes& plain, const Bytes& ptk, int cipher, uint64_t pn, const Mac& da, const Mac& sa) {
        DataSpec d = d0; d.protected_ = true; Bytes hdr = data_header(d); Frame fh = parse_dot11(hdr.data(), hdr.size()); Bytes body;
        if (cipher == CCMP) body = wcrypto::ccmp_encrypt(&ptk[32], fh.hdr(), pn, 0, plain);
        else body = wcrypto::tkip_encrypt(&ptk[32], &ptk[d.from_ds ? 48 : 56], d.a2.b, da.b, sa.b, d.qos ? d.tid : 0, pn, 0, plain);
        putb(hdr, body); return hdr;
    }
};

struct WlanEngine : Engine {
    const char* name() const { return "wlan"; }
    std::string components_json() const {
        return "{\"real\":[\"RadioTap, Dot11::from_bytes, Dot11Data/QoSData, Dot11Beacon::ssid, SNAP, RSNEAPOL parsers\",\"RSNHandshakeCapturer\",\"WPA2Decrypter: add_ap_data(psk,ssid[,bssid]), add_decryption_keys, decrypt, get_keys, callbacks\",\"SessionKeys (PTK derivation, EAPOL MIC, CCMP, TKIP)\",\"WEPDecrypter\",\"OpenSSL\"],"
               "\"stub\":[\"access points and stations: 4-way handshake state machines with retransmission timers, MAC-level retries, rekeys, wrong passphrase\",\"802.11 medium: loss, duplication\",\"monitor-mode tap with optional capture loss\",\"independent WEP/TKIP(Michael, key mixing)/CCMP/PBKDF2/PRF/EAPOL-MIC implementation (validated against real captures)\",\"reference handshake tracker\"]}";
    }
    std::string rule_text(const std::string&) const {
        return "one run = 1-3 BSSs (WEP-40/104, TKIP, CCMP) with 1-4 stations each: beacons, 4-way handshakes driven by AP/STA state machines over a lossy medium (timeout retransmissions with new replay counters, MAC-level retry duplicates, rekeys, a station with the wrong passphrase), protected data frames in both directions (ToDS/FromDS, QoS+TID, fragments, retry bit, payload lengths 0..2300), group-addressed frames, AP-relayed frames, replays of old-key frames, plus corrupted (bit flips in IV/body/MIC) and truncated (every length 0..24 and random) protected frames. Every tap frame goes to real WPA2Decrypter/WEPDecrypter. Oracle: decrypt()==true only for uncorrupted unicast frames whose key the tap could know, with inner layers equal to the original LLC/SNAP payload and the protected bit cleared; strict runs (lossless FIFO tap) also demand that every valid frame decrypts once m1..m4 of an attempt were seen, that get_keys() holds the reference PTK and callbacks name the right (ssid, bssid, client); memory safety by ASan. distinct = distinct (handshake message order, frame kinds) signature; non-trivial = at least one retransmission/duplicate/corruption occurred and at least one frame was judged";
    }

    Plan generate(uint64_t seed, const std::string&, const std::string& tier) {
        Rng root(seed); Rng cfg = root.fork("cfg"), wl = root.fork("workload");
        Plan p; p.engine = "wlan"; p.mode = "wlan"; p.seed = seed; p.cfg.set("property", "C09");
        World w; w.rng = root.fork("net"); bool strict = cfg.chance(0.6); w.loss = cfg.chance(0.6) ? cfg.unit() * 0.35 : 0; w.retry_p = cfg.chance(0.6) ? cfg.unit() * 0.5 : 0; w.tap_loss = strict ? 0 : (cfg.chance(0.7) ? 0.02 + cfg.unit() * 0.15 : 0);
        { Rng ec = root.fork("eapolcorrupt"); w.eapol_corrupt_p = ec.chance(0.3) ? 0.02 + ec.unit() * 0.08 : 0; }
        int cfgmode = (int)cfg.below(3);   // 0: psk+ssid, beacons teach the bssid; 1: psk+ssid+bssid; 2: keys supplied directly
        p.cfg.set("strict", strict ? 1 : 0).set("cfgmode", cfgmode).set("wrap", cfg.chance(0.6) ? "radiotap" : "dot11").set("loss", fmt("%.3f", w.loss)).set("retryp", fmt("%.3f", w.retry_p));
        int nb = (int)cfg.small(1, 3); w.bss.resize(nb);
        for (int i = 0; i < nb; ++i) { Bss& b = w.bss[i]; b.id = i; b.bssid = Mac::of((uint8_t)(0x10 + i)); b.bssid.b[0] = 0; b.bssid.b[1] = 0x1b; int pi = (int)cfg.below(2) + (i % 2) * 2; b.pass = PASSES[pi]; b.ssid = SSIDS[pi];   /* one passphrase per network name (an ESS may have several BSSIDs) */ b.cipher = (int)cfg.pick(std::vector<int>{ WEP40, WEP104, TKIP, TKIP, CCMP, CCMP, CCMP }); b.wepkey = wl.bytes(b.cipher == WEP40 ? 5 : 13); // a network the decrypter is not told about: its handshakes and traffic are seen by the tap, nothing of it may be decrypted
            if (b.cipher >= TKIP && cfg.chance(0.15)) { b.unreg = true; b.pass = "foreignpass"; b.ssid = "foreign"; w.faults["fault.unregistered_network"]++; }
            if (b.cipher >= TKIP) b.pmk = pmk_cached(b.pass, b.ssid); }
        std::vector<std::unique_ptr<Station> > stas;
        for (int i = 0; i < nb; ++i) { int ns = (int)cfg.small(1, 4); for (int s = 0; s < ns; ++s) { Mac m = Mac::of((uint8_t)(0x40 + stas.size())); m.b[0] = 0; m.b[1] = 0x0d; m.b[2] = (uint8_t)cfg.below(3); std::unique_ptr<Station> st(new Station(w, w.bss[i], (int)stas.size(), m));
                bool wrong = w.bss[i].cipher >= TKIP && cfg.chance(0.12); st->pmk_sta = wrong ? pmk_cached(PASSES[(cfg.below(3) + 1) % 4], w.bss[i].ssid + "x") : w.bss[i].pmk; if (wrong) w.faults["fault.station_with_wrong_passphrase"]++; { Rng rb = root.fork(fmt("replaybase%zu", stas.size()).c_str()); static const uint64_t bases[6] = { 0, 0, 0xfffffffdULL, 0x100000000ULL, 0x7fffffffffffff00ULL, 0xffffffffffff0000ULL }; st->replay_base = bases[rb.below(6)]; if (st->replay_base > 0xffffffffULL) st->replay_base += rb.below(1000); st->replay = st->replay_base; }
                st->fresh_snonce = cfg.chance(0.5); st->proc_delay = (int64_t)cfg.range(100, 4000); stas.push_back(std::move(st)); } }
        // ---- script
        auto payload_len = [&]() { return (size_t)cfg.pick(std::vector<int>{ 0, 1, 15, 16, 17, 32, 48, 100, 255, 256, 1000, (int)cfg.range(0, 300), (int)cfg.range(0, 300), tier == "thorough" ? 2300 : 600 }); };
        for (auto& b : w.bss) { int nbeac = (int)cfg.range(cfgmode == 0 ? 1 : 0, 2); for (int i = 0; i < nbeac; ++i) { int64_t t = (int64_t)cfg.below(3000) + i * 100000; Bss* bp = &b; w.q.after(t, [&w, bp, i]() { w.to_tap(beacon(bp->bssid, bp->ssid, (uint16_t)(i + 1), true, bp->cipher == CCMP), "beacon", bp->id, -1); }); } }
        for (auto& sp : stas) {
            Station* s = sp.get(); int64_t t0 = 5000 + (int64_t)cfg.below(200000);
            if (s->b.cipher >= TKIP) { w.q.after(t0, [s]() { s->start_handshake(); }); if (cfg.chance(0.2)) { int64_t t1 = t0 + 150000 + (int64_t)cfg.below(300000); w.q.after(t1, [s, &w]() { w.faults["fault.rekey"]++; s->start_handshake(); }); } 
                { Rng ra = root.fork(fmt("reassoc%d", s->id).c_str()); if (ra.chance(0.2)) { int64_t t2 = ra.chance(0.6) ? t0 + (int64_t)ra.range(100, 30000) : t0 + 100000 + (int64_t)ra.below(300000); w.q.after(t2, [s, &w]() { w.faults["fault.reassociation_counter_restart"]++; s->reassociate(); }); } } }
            int nd = (int)cfg.small(1, tier == "thorough" ? 30 : 10);
            for (int i = 0; i < nd; ++i) {
                int64_t t = t0 - 3000 + (int64_t)cfg.below(600000); size_t plen = payload_len(); Bytes payload = wl.bytes(plen); bool ip_payload = cfg.chance(0.4); if (ip_payload) { std::string dsc; payload = gen::ip_random(wl, false, dsc); } bool from_ap = cfg.chance(0.5), qos = cfg.chance(0.4); uint8_t tid = (uint8_t)cfg.below(16); bool retry = cfg.chance(0.1), mf = cfg.chance(0.05); uint8_t frag = mf ? (uint8_t)cfg.below(4) : 0;
                int kindsel = (int)cfg.below(20); uint16_t et = ip_payload ? 0x0800 : (cfg.chance(0.5) ? 0x88b5 : 0x9000); uint64_t fseed = cfg.next();   /* unknown ethertypes keep the payload opaque */
                w.q.after(t, [=, &w]() {
                    Rng fr(fseed); Bss& b = s->b; DataSpec d; d.from_ds = from_ap; d.to_ds = !from_ap; d.qos = qos; d.tid = tid; d.retry = retry; d.more_frag = mf; d.frag = frag; d.cf = (uint8_t)(!qos && (fseed >> 40) % 4 == 0 ? 1 + (fseed >> 44) % 3 : 0);   /* the contention-free data subtypes now and then (non-QoS ones: libtins does not parse QoS Data+CF-* as QoS frames at all - noted, not judged) */ d.seq = from_ap ? s->seq_ap++ : s->seq_sta++;
                    Mac peer = Mac::of(0x77); Mac da, sa; if (from_ap) { d.a1 = s->mac; d.a2 = b.bssid; d.a3 = peer; da = s->mac; sa = peer; } else { d.a1 = b.bssid; d.a2 = s->mac; d.a3 = peer; da = peer; sa = s->mac; }
                    Bytes plain = llc_snap(et, payload);
                    if (b.cipher <= WEP104) {
                        uint8_t iv[3] = { (uint8_t)fr.next(), (uint8_t)fr.next(), (uint8_t)fr.next() }; DataSpec dd = d; dd.protected_ = true; Bytes f = data_header(dd); Bytes key = b.wepkey; std::string bad;
                        if (kindsel == 0) { key[0] ^= 1; bad = "wrong-wep-key"; } putb(f, wcrypto::wep_encrypt(key, iv, (uint8_t)fr.below(4), plain));
                        if (kindsel == 1) { size_t hl = data_header(dd).size(); size_t pos = hl + fr.below(f.size() - hl); if (pos == hl + 3) pos = hl + 4; /* the key-id byte is not covered by the ICV */ f[pos] ^= (uint8_t)(1u << fr.below(8)); bad = "bitflip"; w.faults["fault.corrupted_protected_frame"]++; }
                        if (kindsel == 2) { size_t hl = data_header(dd).size(); size_t keep = fr.below(13); f.resize(std::min(f.size(), hl + keep)); bad = fmt("truncated:%zu", keep); w.faults["fault.truncated_protected_frame"]++; }
                        w.to_tap(f, "wep-data", b.id, s->id, -2, plain, bad); return;
                    }
                    // WPA: which key protects the frame
                    const Bytes* ptk = 0; int kid = -1; std::string bad;
                    if (from_ap ? s->installed_ap : s->installed_sta) { ptk = from_ap ? &s->ap_ptk : &s->sta_installed_ptk; kid = s->cur_kid; }
                    if (!ptk || ptk->size() < 64) { // no key yet: traffic before the handshake is sent unprotected
                        Bytes f = data_header(d); putb(f, plain); w.to_tap(f, "clear-data", b.id, s->id, -1, plain, "unprotected"); return; }
                    uint64_t pn = from_ap ? s->pn_ap++ : s->pn_sta++; if (fr.chance(0.1)) pn += (uint64_t)fr.below(1 << 20);
                    if (kindsel == 3 && from_ap) { d.a1 = Mac::of(0xff); for (int i = 0; i < 6; ++i) d.a1.b[i] = 0xff; Bytes gtk = fr.bytes(64); Bytes f = s->protect(d, plain, gtk, b.cipher, pn, d.a1, sa); w.to_tap(f, "group-data", b.id, s->id, -3, plain, "group-addressed"); w.faults["fault.group_addressed_frame"]++; return; }
                    if (kindsel == 4 && from_ap) { // relayed by the AP from another station of the BSS: addr3 is that station
                        Mac other; bool found = false; for (auto& k : w.keys) if (k.bss == b.id && !(k.sta == s->mac)) { other = k.sta; found = true; } if (found) { d.a3 = other; sa = other; Bytes f = s->protect(d, plain, *ptk, b.cipher, pn, da, sa); w.to_tap(f, "relayed-data", b.id, s->id, kid, plain, ""); w.faults["fault.ap_relayed_frame"]++; return; } }
                    Bytes f = s->protect(d, plain, *ptk, b.cipher, pn, da, sa); size_t hl = data_header(d).size();
                    if (kindsel == 5 || kindsel == 6) {
                        // bytes 0,1(CCMP)/0,2(TKIP) and 4..7 of the security header carry the PN/TSC (authenticated); byte 2 (CCMP reserved), byte 1 (TKIP WEPSeed) and byte 3 (key id / reserved bits) are not
                        static const int auth_ccmp[6] = { 0, 1, 4, 5, 6, 7 }, auth_tkip[6] = { 0, 2, 4, 5, 6, 7 }; size_t pos;
                        if (kindsel == 5) pos = hl + (size_t)(b.cipher == CCMP ? auth_ccmp : auth_tkip)[fr.below(6)]; else pos = hl + 8 + fr.below(f.size() - hl - 8);
                        if (pos < f.size()) { f[pos] ^= (uint8_t)(1u << fr.below(8)); bad = "bitflip"; w.faults["fault.corrupted_protected_frame"]++; } }
                    else if (kindsel == 7) { if (f.size() >= 4) { size_t pos = f.size() - 1 - fr.below(std::min<size_t>(12, f.size() - hl)); f[pos] ^= (uint8_t)(1u << fr.below(8)); } bad = "mic-bitflip"; w.faults["fault.corrupted_protected_frame"]++; }
                    else if (kindsel == 8 || kindsel == 9) { size_t full = f.size() - hl; size_t keep = kindsel == 8 ? fr.below(25) : fr.below(full + 1); if (keep < full) { f.resize(hl + keep); bad = fmt("truncated:%zu", keep); w.faults["fault.truncated_protected_frame"]++; } }
                    else if (kindsel == 10) { Bytes other = fr.bytes(64); f = s->protect(d, plain, other, b.cipher, pn, da, sa); bad = "unknown-key"; w.faults["fault.frame_under_unknown_key"]++; }
                    w.to_tap(f, "data", b.id, s->id, kid, plain, bad);
                });
            }
        }
        w.q.run(INT64_MAX, 200000);
        // replays of old-key frames after a rekey: re-insert earlier data frames of a station at the end
        { std::vector<TapRec> extra; for (auto& r : w.tap) if (r.kind == "data" && r.bad.empty() && cfg.chance(0.03)) { TapRec x = r; x.t = w.q.now + 1000; x.kind = "data-replayed"; extra.push_back(x); w.faults["fault.replayed_old_frame"]++; } for (auto& x : extra) { x.ord = ++w.ord; w.tap.push_back(x); } }
        std::stable_sort(w.tap.begin(), w.tap.end(), [](const TapRec& a, const TapRec& b) { return a.t != b.t ? a.t < b.t : a.ord < b.ord; });
        // the application withdraws the WEP password of a network in mid-capture (WEPDecrypter::remove_password) and may supply it again later
        { Rng wr = root.fork("wepremove"); for (auto& b : w.bss) if (b.cipher <= WEP104 && !w.tap.empty() && wr.chance(0.25)) { size_t at = wr.below(w.tap.size()); TapRec x; x.t = w.tap[at].t; x.ord = 0; x.kind = "wep-remove"; x.bss = b.id; x.sta = -1; x.kid = -1; w.tap.insert(w.tap.begin() + at, x); w.faults["fault.wep_password_removed"]++;
                if (wr.chance(0.4)) { size_t at2 = at + 1 + wr.below(w.tap.size() - at); TapRec y = x; y.t = w.tap[at2 - 1].t; y.kind = "wep-add"; w.tap.insert(w.tap.begin() + at2, y); } } }
        for (auto& b : w.bss) { KV k; k.set("bss", b.id).set("bssid", Bytes(b.bssid.b, b.bssid.b + 6)).set("ssid", b.ssid).set("pass", [&]() { std::string q = b.pass; for (char& c : q) if (c == ' ') c = '_'; return q; }()).set("cipher", b.cipher).set("wepkey", b.wepkey).set("unreg", b.unreg ? 1 : 0); p.truth.push_back("bss " + k.line()); }
        for (auto& s : stas) { KV k; k.set("sta", s->id).set("bss", s->b.id).set("mac", Bytes(s->mac.b, s->mac.b + 6)).set("wrongpass", s->pmk_sta != s->b.pmk ? 1 : 0); p.truth.push_back("sta " + k.line()); }
        for (auto& kr : w.keys) { KV k; k.set("key", kr.id).set("bss", kr.bss).set("mac", Bytes(kr.sta.b, kr.sta.b + 6)).set("ptk", kr.ptk).set("cipher", kr.cipher).set("an", Bytes(kr.anonce, kr.anonce + 32)).set("sn", Bytes(kr.snonce, kr.snonce + 32)); p.truth.push_back("key " + k.line()); }
        for (auto& r : w.tap) { KV k; k.set("t", r.t).set("k", r.kind).set("bss", r.bss).set("sta", r.sta).set("kid", r.kid).set("bad", r.bad.empty() ? "-" : r.bad).set("pt", r.plain).set("f", r.frame); p.steps.push_back(k.line()); }
        for (auto& f : w.faults) p.cfg.set(f.first, (int64_t)f.second);
        return p;
    }

    // ------------------------------------------------------------------------------------------------ execution
    struct RefSess { int stage; uint64_t rc1, rc3; uint8_t an[32], an3[32], sn[32]; bool have, partial_possible = false; Bytes ptk; bool known; int known_kid; RefSess() : stage(0), rc1(0), rc3(0), have(false), known(false), known_kid(-1) {} };

    Verdict execute(const Plan& p, RunStats& st, Trace& tr) {
        using namespace Tins;
        for (auto& kv : p.cfg.v) if (kv.first.compare(0, 6, "fault.") == 0) st.ctr[kv.first] += strtoull(kv.second.c_str(), 0, 10);
        const bool strict = p.cfg.num("strict"); const int cfgmode = (int)p.cfg.num("cfgmode"); const bool wrap = p.cfg.str("wrap") == "radiotap";
        std::map<int, Bss> bss; std::map<int, KeyRec> keys; std::map<int, std::pair<int, Mac> > stas;
        for (auto& t : p.truth) { if (t.compare(0, 4, "bss ") == 0) { KV k(t.substr(4)); Bss b; b.id = (int)k.num("bss"); Bytes m = k.bytes("bssid"); memcpy(b.bssid.b, m.data(), 6); b.ssid = k.str("ssid"); b.pass = k.str("pass"); for (char& c : b.pass) if (c == '_') c = ' '; b.cipher = (int)k.num("cipher"); b.wepkey = k.bytes("wepkey"); b.unreg = k.num("unreg"); if (b.cipher >= TKIP) b.pmk = pmk_cached(b.pass, b.ssid); bss[b.id] = b; }
            else if (t.compare(0, 4, "key ") == 0) { KV k(t.substr(4)); KeyRec r; r.id = (int)k.num("key"); r.bss = (int)k.num("bss"); Bytes m = k.bytes("mac"); memcpy(r.sta.b, m.data(), 6); r.ptk = k.bytes("ptk"); r.cipher = (int)k.num("cipher"); Bytes a = k.bytes("an"), s = k.bytes("sn"); memcpy(r.anonce, a.data(), 32); memcpy(r.snonce, s.data(), 32); keys[r.id] = r; }
            else if (t.compare(0, 4, "sta ") == 0) { KV k(t.substr(4)); Mac m; Bytes mb = k.bytes("mac"); memcpy(m.b, mb.data(), 6); stas[(int)k.num("sta")] = std::make_pair((int)k.num("bss"), m); } }
        // ---- SUT set-up
        Crypto::WPA2Decrypter wpa; Crypto::WEPDecrypter wep;
        struct Cb { std::vector<std::string> hs, ap; } cb;
        wpa.handshake_captured_callback([&cb](const std::string& ssid, const HWAddress<6>& b, const HWAddress<6>& c) { cb.hs.push_back(ssid + "|" + b.to_string() + "|" + c.to_string()); });
        wpa.ap_found_callback([&cb](const std::string& ssid, const HWAddress<6>& b) { cb.ap.push_back(ssid + "|" + b.to_string()); });
        std::set<std::string> psk_done;
        for (auto& kv : bss) { const Bss& b = kv.second; if (b.cipher <= WEP104) { wep.add_password(HWAddress<6>(b.bssid.b), std::string(b.wepkey.begin(), b.wepkey.end())); continue; }
            if (b.unreg) continue;
            if (cfgmode == 0) { if (!psk_done.count(b.ssid)) { wpa.add_ap_data(b.pass, b.ssid); psk_done.insert(b.ssid); } } else if (cfgmode == 1) wpa.add_ap_data(b.pass, b.ssid, HWAddress<6>(b.bssid.b)); }
        if (cfgmode == 2) for (auto& kv : keys) { const KeyRec& k = kv.second; if (bss[k.bss].unreg) continue; Crypto::WPA2Decrypter::addr_pair ap(HWAddress<6>(bss[k.bss].bssid.b), HWAddress<6>(k.sta.b)); Bytes ptk80 = k.ptk; ptk80.resize(80, 0); /* the last key of a station wins, as with a rekey */ wpa.add_decryption_keys(ap, Crypto::WPA2::SessionKeys(Crypto::WPA2::SessionKeys::ptk_type(ptk80.begin(), ptk80.end()), k.cipher == CCMP)); }
        std::map<std::string, int> direct_key;   // cfgmode 2: (bss,sta) -> kid registered last
        if (cfgmode == 2) for (auto& kv : keys) if (!bss[kv.second.bss].unreg) direct_key[fmt("%d|", kv.second.bss) + hex(kv.second.sta.b, 6)] = kv.first;
        // ---- reference handshake tracker B5
        std::map<std::string, RefSess> ref; std::set<std::string> ap_known; uint64_t sig = 0xC09; int idx = -1; bool judged = false; int64_t last_t = 0; std::string order_sig;
        std::set<int> tap_seen_nonces_for_kid; std::set<int> wep_removed;
        for (auto& sl : p.steps) {
            ++idx; KV k(sl); Bytes frame = k.bytes("f"); std::string kind = k.str("k"); int b_id = (int)k.num("bss"); int kid = (int)k.num("kid"); std::string bad = k.str("bad"); if (bad == "-") bad = ""; Bytes plain = k.bytes("pt"); last_t = k.num("t");
            const Bss& b = bss[b_id];
            if (kind == "wep-remove") { wep.remove_password(HWAddress<6>(b.bssid.b)); wep_removed.insert(b_id); st.inc("probe.op.wep_remove"); continue; }
            if (kind == "wep-add") { wep.add_password(HWAddress<6>(b.bssid.b), std::string(b.wepkey.begin(), b.wepkey.end())); wep_removed.erase(b_id); st.inc("probe.op.wep_add"); continue; }
            Frame f = parse_dot11(frame.data(), frame.size());
            sig = mix64(sig, fnv1a(kind) ^ fnv1a(bad.substr(0, bad.find(':'))));
            // reference: beacons teach the BSSID (cfgmode 0), EAPOL frames drive the tracker
            if (kind == "beacon") ap_known.insert(hex(b.bssid.b, 6));
            Bytes e; std::string skey;
            if (f.ok && f.type == 2 && !f.protected_ && is_eapol_body(f.body, e)) {
                EapolKey ek = parse_eapol(e); const uint8_t* sta = f.from_ds ? f.a1 : f.a2; skey = hex(f.bssid(), 6) + "|" + hex(sta, 6); RefSess& r = ref[skey]; int m = ek.msg(); order_sig += (char)('0' + m);
                bool ap_ok = !b.unreg && (cfgmode == 1 || (cfgmode == 0 && ap_known.count(hex(f.bssid(), 6))));
                if (m >= 1 && m <= 3) r.partial_possible = true;
                if (m == 1) { if (!r.have || ek.replay > r.rc1) { r.have = true; r.stage = 1; r.rc1 = ek.replay; memcpy(r.an, ek.nonce, 32); st.inc("probe.ref_m1_new_attempt"); } else if (ek.replay < r.rc1) { r.have = true; r.stage = 1; r.rc1 = ek.replay; memcpy(r.an, ek.nonce, 32); st.inc("probe.ref_m1_lower_counter_new_attempt");   /* a message 1 with another counter - a restarted association, or a stale duplicate - is where the exchange starts over: whatever was collected before belongs to another attempt */ }
                    else st.inc("probe.ref_m1_duplicate_ignored"); }
                else if (m == 2) { if (r.have && ek.replay == r.rc1 && r.stage == 1) { memcpy(r.sn, ek.nonce, 32); r.stage = 2; } else if (r.have && r.stage >= 2) st.inc("probe.ref_m2_duplicate_ignored"); }
                else if (m == 3) { if (r.have && r.stage == 2) { r.stage = 3; r.rc3 = ek.replay; memcpy(r.an3, ek.nonce, 32); if (memcmp(r.an, r.an3, 32) != 0) st.inc("probe.ref_m3_anonce_differs_from_held_m1"); } else if (r.have && r.stage == 3 && ek.replay > r.rc3) { r.rc3 = ek.replay; /* the ANonce of the first message 3 stays: a retransmission repeats it, and a stray message 3 of another exchange must not turn the tracker into something more capable than a capturer that keeps the first one */ st.inc("probe.ref_m3_retransmitted_before_m4"); } else if (r.have && r.stage == 3) st.inc("probe.ref_m3_duplicate_ignored"); }
                else if (m == 4) { bool took = false; if (r.have && r.stage == 3 && ek.replay <= r.rc3 && b.cipher >= TKIP) { Bytes ptk = wcrypto::ptk_of(b.pmk, f.bssid(), sta, r.an3, r.sn); uint8_t mic[16]; Bytes z = e; if (z.size() >= 97) std::fill(z.begin() + 81, z.begin() + 97, 0); z.resize(std::min<size_t>(z.size(), 99 + ek.data.size())); wcrypto::eapol_mic(Bytes(ptk.begin(), ptk.begin() + 16), ek.desc_version(), z, mic);
                        if (memcmp(mic, ek.mic, 16) == 0) { took = true; if (ap_ok) { r.ptk = ptk; r.known = true; st.inc("probe.ref_handshake_complete"); } r.stage = 0; r.have = false; } else { st.inc("probe.ref_m4_mic_invalid"); r.stage = 0; r.have = false;   /* a message 4 that does not verify (damaged copy, stale nonce) ends the attempt: nothing is demanded of this exchange any more, not even when an intact retry follows (histories with damaged messages are outside the property's premise) */ } }
                    // a message 4 this conservative tracker did not accept may still have completed an exchange for the decrypter (it follows
                    // exchanges the tracker abandons, e.g. after a counter restart) and replaced the session's keys: nothing is demanded of the
                    // key the tracker holds from then on. A mere duplicate of the message 4 that completed the last exchange cannot (no message
                    // 1-3 since, so the decrypter holds no partial exchange)
                    // a message 4 whose replay counter lies beyond the message 3 the tracker holds (a late duplicate from an earlier association of the
                    // same station, say) may be taken by the decrypter as the completing message, fail verification there and cost it the exchange:
                    // the tracker gives the attempt up as well
                    if (!took && r.have && r.stage == 3 && ek.replay > r.rc3) { r.stage = 0; r.have = false; st.inc("probe.ref_m4_beyond_m3_ends_attempt"); }
                    if (took) r.partial_possible = false;      /* the decrypter completed this exchange too and dropped its partial state */
                    else if (r.known && r.partial_possible) { r.known = false; st.inc("probe.ref_key_possibly_superseded"); } }
            }
            // ---- SUT
            std::unique_ptr<PDU> pdu; bool parsed = true;
            try { if (wrap) { Bytes rt = radiotap_wrap(frame); pdu.reset(new RadioTap(rt.data(), (uint32_t)rt.size())); } else pdu.reset(Dot11::from_bytes(frame.data(), (uint32_t)frame.size())); } catch (malformed_packet&) { parsed = false; }
            if (!parsed) { st.inc("probe.frame_rejected_by_parser"); continue; }
            bool is_wep_bss = b.cipher <= WEP104; bool got = false; std::string exc;
            try { got = is_wep_bss ? wep.decrypt(*pdu) : wpa.decrypt(*pdu); if (!is_wep_bss && !got) { /* a WEP decrypter on the same capture must not claim WPA frames */ bool w2 = wep.decrypt(*pdu); if (w2 && f.protected_) return Verdict::bad("wlan:wep-decrypter-claims-wpa-frame", "WEPDecrypter reported a frame of a WPA network as decrypted", idx); } }
            catch (exception_base& ex) { exc = demangle(typeid(ex).name()); st.inc("probe.exception_from_decrypt." + exc); }
            st.inc("chk.decrypt_call");
            tr.add(fmt("step %d t=%lld %s bss=%d kid=%d bad=%s -> %d %s keys=%zu hs_cb=%zu", idx, (long long)last_t, kind.c_str(), b_id, kid, bad.c_str(), got, exc.c_str(), wpa.get_keys().size(), cb.hs.size()));
            bool is_data = kind.find("data") != std::string::npos; if (!is_data) { if (got) return Verdict::bad("wlan:non-data-frame-reported-decrypted", kind + " reported as decrypted", idx); continue; }
            judged = true;
            // premise of the completeness half: the plaintext is something libtins can represent (its LLC/SNAP payload parses)
            bool parseable = false; try { SNAP ctl(plain.data(), (uint32_t)plain.size()); parseable = true; } catch (exception_base&) {}
            if (!parseable) st.inc("probe.plaintext_not_parseable");
            // expected: may it / must it decrypt
            const uint8_t* sta = f.ok ? (f.from_ds ? f.a1 : f.a2) : 0; bool may = false, must = false; std::string why;
            if (bad.empty() && f.ok && f.protected_) {
                if (is_wep_bss) { may = must = !wep_removed.count(b_id); }
                else if (kid >= 0 && keys.count(kid)) {
                    // (the completeness half below is only demanded for parseable plaintexts)
                    const KeyRec& kr = keys[kid];
                    if (cfgmode == 2) { auto it = direct_key.find(fmt("%d|", kr.bss) + hex(kr.sta.b, 6)); may = must = it != direct_key.end() && keys[it->second].ptk == kr.ptk; }
                    else { std::string sk = hex(b.bssid.b, 6) + "|" + hex(kr.sta.b, 6); auto it = ref.find(sk); bool known_now = it != ref.end() && it->second.known && it->second.ptk == kr.ptk; may = known_now || (it != ref.end() && it->second.known);   // safety: decrypting needs the right key anyway
                        may = true; must = strict && known_now; }
                }
            }
            if (b.unreg) { may = false; must = false; }
            if (!parseable) must = false;
            if (got) {
                st.inc("probe.frame_decrypted");
                if (!bad.empty()) return Verdict::bad("wlan:bad-frame-reported-decrypted:" + bad.substr(0, bad.find(':')), fmt("a %s frame (%s) was reported as decrypted", kind.c_str(), bad.c_str()), idx);
                if (!may) return Verdict::bad("wlan:decrypted-without-key", "frame reported decrypted although no matching key can be known", idx);
                const Dot11Data* dd = pdu->find_pdu<Dot11Data>(); if (!dd) return Verdict::bad("wlan:decrypted-frame-lost-data-layer", "no Dot11Data after decryption", idx);
                if (dd->wep()) return Verdict::bad("wlan:protected-bit-not-cleared", "frame reported decrypted but still marked protected", idx);
                if (!dd->inner_pdu()) return Verdict::bad("wlan:decrypted-frame-has-no-payload", "no inner layer after decryption", idx);
                // compare layer by layer (SNAP's own serialization rewrites the EtherType of an opaque payload - C03's subject - so it is not used as the witness)
                const SNAP* sn = dd->find_pdu<SNAP>(); if (!sn) return Verdict::bad("wlan:decrypted-frame-has-no-snap", "no SNAP layer after decryption", idx);
                st.inc("chk.plaintext");
                if (plain.size() < 8 || sn->dsap() != plain[0] || sn->ssap() != plain[1] || sn->control() != plain[2] || sn->eth_type() != get16(&plain[6])) return Verdict::bad("wlan:plaintext-mismatch", "LLC/SNAP header of the decrypted frame differs from the original", idx);
                Bytes rest(plain.begin() + 8, plain.end());
                if (!sn->inner_pdu()) { if (!rest.empty()) return Verdict::bad("wlan:plaintext-mismatch", fmt("decrypted frame has no payload, original had %zu bytes", rest.size()), idx); }
                else if (const RawPDU* rp = tins_cast<const RawPDU*>(sn->inner_pdu())) { if (Bytes(rp->payload().begin(), rp->payload().end()) != rest) return Verdict::bad("wlan:plaintext-mismatch", fmt("decrypted payload (%zu bytes) differs from the original (%zu bytes)", (size_t)rp->payload_size(), rest.size()), idx); st.inc("chk.plaintext_bytes"); }
                else { // a parsed upper layer (IP): compare through serialization, guarded by the control path on the original bytes
                    bool roundtrips = false; Bytes sb; try { IP ctl(rest.data(), (uint32_t)rest.size()); PDU::serialization_type cs = ctl.serialize(); roundtrips = Bytes(cs.begin(), cs.end()) == rest; PDU::serialization_type s2 = const_cast<PDU*>(sn->inner_pdu())->serialize(); sb.assign(s2.begin(), s2.end()); } catch (std::exception&) { roundtrips = false; }
                    if (!roundtrips) st.inc("probe.skipped_nonroundtrip_plaintext"); else { st.inc("chk.plaintext_bytes"); if (sb != rest) return Verdict::bad("wlan:plaintext-mismatch", fmt("decrypted IP payload (%zu bytes) differs from the original (%zu bytes)", sb.size(), rest.size()), idx); } }
            } else {
                if (must && exc.empty() && kind == "relayed-data") return Verdict::bad("wlan:relayed-frame-not-decrypted", "a frame relayed by the AP (addr3 = another station of the BSS), protected with the receiver's key, was not decrypted although that key is known", idx);
                if (must && exc.empty()) return Verdict::bad("wlan:valid-frame-not-decrypted", fmt("%s frame of a session whose complete handshake (order so far: %s) the tap has seen was not decrypted", kind.c_str(), order_sig.c_str()), idx);
                if (must && !exc.empty()) return Verdict::bad("wlan:valid-frame-not-decrypted:exception:" + exc, "decrypt() threw for a valid frame of a known session", idx);
                if (!bad.empty()) st.inc("probe.bad_frame_left_undecrypted." + bad.substr(0, bad.find(':')));
            }
            // learned keys equal the reference PTK (strict, learned from handshakes)
            if (strict && cfgmode != 2 && !is_wep_bss && got && kid >= 0) { bool found = false; for (auto& kv : wpa.get_keys()) { const Crypto::WPA2::SessionKeys::ptk_type& pt = kv.second.get_ptk(); if (pt.size() >= 64 && memcmp(pt.data(), keys[kid].ptk.data(), 64) == 0) { found = true; if (kv.second.uses_ccmp() != (keys[kid].cipher == CCMP)) return Verdict::bad("wlan:learned-key-cipher-flag", "the learned session keys report the wrong cipher through uses_ccmp()", idx); } } st.inc("chk.learned_ptk"); if (!found) return Verdict::bad("wlan:learned-ptk-differs", "a frame decrypted but get_keys() does not hold the reference PTK", idx); }
        }
        // callbacks name the right networks
        if (strict) for (auto& c : cb.hs) { bool okc = false; for (auto& kv : keys) { const KeyRec& kr = kv.second; std::string want = bss[kr.bss].ssid + "|" + HWAddress<6>(bss[kr.bss].bssid.b).to_string() + "|" + HWAddress<6>(kr.sta.b).to_string(); if (want == c) okc = true; } st.inc("chk.callback"); if (!okc) return Verdict::bad("wlan:handshake-callback-wrong", "handshake_captured callback reported " + c, idx); }
        st.inc("probe.handshake_captured_callbacks", cb.hs.size()); st.inc("probe.ap_found_callbacks", cb.ap.size());
        sig = mix64(sig, fnv1a(order_sig)); st.sched_sig = sig; st.sim_us = last_t; bool any_fault = false; for (auto& kv : p.cfg.v) if (kv.first.compare(0, 6, "fault.") == 0 && kv.second != "0") any_fault = true;
        st.nontrivial = judged && any_fault; st.states.insert(mix64(fnv1a(order_sig.substr(0, 12)), (uint64_t)cfgmode * 2 + (strict ? 1 : 0)));
        return Verdict();
    }

    std::string signature(const Plan& p, const Verdict& v) {
        // shape: cipher of the BSS of the failing frame + the handshake message order seen before it
        std::string s = v.cls; std::string order; int n = 0; std::map<int, int> cipher; for (auto& t : p.truth) if (t.compare(0, 4, "bss ") == 0) { KV k(t.substr(4)); cipher[(int)k.num("bss")] = (int)k.num("cipher"); }
        for (auto& sl : p.steps) { KV k(sl); std::string kind = k.str("k"); if (kind.size() >= 2 && kind[0] == 'm' && kind[1] >= '1' && kind[1] <= '4') order += kind[1]; if (n++ == v.at_step) { s += fmt("|cipher=%d", cipher[(int)k.num("bss")]); break; } }
        if (v.cls.find("not-decrypted") != std::string::npos) s += "|order=" + order;
        return s;
    }
};

int main(int argc, char** argv) { WlanEngine e; return engine_main(e, argc, argv); }
