// Engine `frag`: C08 - IPv4 fragment reassembly.
// Real code: libtins EthernetII/IP parsers, IPv4Reassembler/IPv4Stream, pdu_from_flag, inner-layer serializers.
// Stubs: senders, fragmenting routers (1-3 hops, decreasing MTU), lossy/duplicating/reordering network, tap.
#include "kernel.hpp"
#include "codec.hpp"
#include <tins/tins.h>
#include <tins/ip_reassembler.h>
#include <memory>

using namespace sim; using namespace codec;

extern "C" __attribute__((used)) const char* __asan_default_options() { return "exitcode=77:detect_leaks=0:abort_on_error=0:allocator_may_return_null=1"; }
extern "C" __attribute__((used)) const char* __ubsan_default_options() { return "print_stacktrace=1:halt_on_error=1"; }

struct Dgram { int idx; Ip4Hdr h; Bytes payload; };   // original datagram (h.options = options of the original)

// RFC 791 fragmentation of one IP packet (which may itself be a fragment) to fit `mtu` bytes of IP packet
static std::vector<std::pair<Ip4Hdr, Bytes> > fragment(const Ip4Hdr& h, const Bytes& pl, size_t mtu, Rng& r, bool vary_ttl) {
    std::vector<std::pair<Ip4Hdr, Bytes> > out;
    Bytes opts = h.options; while (opts.size() % 4) opts.push_back(0);
    size_t hl = 20 + opts.size();
    if (hl + pl.size() <= mtu) { out.push_back(std::make_pair(h, pl)); return out; }
    // options copied into non-first fragments: only those with the copy bit (0x80)
    Bytes copied; for (size_t i = 0; i < h.options.size();) { uint8_t k = h.options[i]; if (k == 0) break; if (k == 1) { ++i; continue; } if (i + 1 >= h.options.size()) break; uint8_t l = h.options[i + 1]; if (l < 2 || i + l > h.options.size()) break; if (k & 0x80) copied.insert(copied.end(), h.options.begin() + i, h.options.begin() + i + l); i += l; }
    size_t pos = 0; bool first = true;
    while (pos < pl.size()) {
        const Bytes& o = (first && h.frag_off8 == 0) ? h.options : copied;
        size_t ol = (o.size() + 3) / 4 * 4; size_t room = (mtu - 20 - ol) / 8 * 8; if (room == 0) room = 8;
        size_t n = std::min(room, pl.size() - pos);
        Ip4Hdr f = h; f.options = o; f.frag_off8 = (uint16_t)(h.frag_off8 + pos / 8); f.mf = h.mf || (pos + n < pl.size()); f.df = false;
        if (vary_ttl) f.ttl = (uint8_t)(h.ttl - r.below(3));
        out.push_back(std::make_pair(f, Bytes(pl.begin() + pos, pl.begin() + pos + n)));
        pos += n; first = false;
    }
    return out;
}

static Bytes l4_payload(Rng& r, uint8_t proto, const Addr& src, const Addr& dst, size_t want) {
    Bytes b;
    if (proto == 17) {
        size_t n = want < 8 ? 0 : want - 8; Bytes data = r.bytes(n);
        put16(b, (uint16_t)r.range(1, 65535)); put16(b, (uint16_t)r.range(1, 65535)); put16(b, (uint16_t)(8 + n)); put16(b, 0); putb(b, data);
        uint32_t acc = csum_add(0, src.b, 4); acc = csum_add(acc, dst.b, 4); uint8_t ph[4] = { 0, 17, (uint8_t)(b.size() >> 8), (uint8_t)b.size() }; acc = csum_add(acc, ph, 4); acc = csum_add(acc, b.data(), b.size());
        uint16_t c = csum_fin(acc); if (c == 0) c = 0xffff; set16(b, 6, c);
    } else if (proto == 6) {
        TcpSeg s; s.sport = (uint16_t)r.range(1, 65535); s.dport = (uint16_t)r.range(1, 65535); s.seq = (uint32_t)r.next(); s.ack = (uint32_t)r.next(); s.flags = TH_ACK | TH_PSH; s.win = (uint16_t)r.next();
        if (r.chance(0.3)) s.opt_mss(1460); s.payload = r.bytes(want < 24 ? 1 : want - 20 - ((s.options.size() + 3) / 4 * 4));
        b = tcp_bytes(s, src, dst);
    } else if (proto == 1) {
        size_t n = want < 8 ? 0 : want - 8; b.push_back(r.chance(0.5) ? 8 : 0); b.push_back(0); put16(b, 0); put16(b, (uint16_t)r.next()); put16(b, (uint16_t)r.next()); putb(b, r.bytes(n));
        set16(b, 2, inet_csum(b.data(), b.size()));
    } else b = r.bytes(std::max<size_t>(want, 1));
    return b;
}

struct FragEngine : Engine {
    const char* name() const { return "frag"; }
    std::string components_json() const {
        return "{\"real\":[\"libtins EthernetII/IP parsers\",\"IPv4Reassembler\",\"Internals::IPv4Stream/IPv4Fragment\",\"Internals::pdu_from_flag\",\"UDP/TCP/ICMP/RawPDU parse+serialize of the reassembled payload\"],"
               "\"stub\":[\"senders\",\"1-3 fragmenting routers with decreasing MTU (RFC 791 option copying)\",\"network: reorder/dup/loss\",\"tap\",\"independent IPv4/UDP/TCP/ICMP encoder sim/codec\"]}";
    }
    std::string rule_text(const std::string&) const {
        return "one run = 1-5 IPv4 datagrams (tiny host/id pools: same id other hosts, same hosts other id, same id and hosts in the opposite direction, sequential id reuse) sent through 1-3 fragmenting hops, their fragments interleaved/reordered/duplicated/lost on the way to the tap, plus unfragmented packets; after every process() the reference hole-list reassembler keyed by (src,dst,id) predicts the status and, on completion, header and payload. distinct = distinct arrival-order signature; non-trivial = at least one datagram was fragmented and a reorder/dup/loss/interleave fired";
    }

    Plan generate(uint64_t seed, const std::string&, const std::string& tier) {
        Rng root(seed); Rng cfg = root.fork("cfg"), wl = root.fork("workload"), net = root.fork("net");
        Plan p; p.engine = "frag"; p.mode = "frag"; p.seed = seed; p.cfg.set("property", "C08");
        std::vector<Addr> hosts; hosts.push_back(Addr::v4(10, 0, 0, 1)); hosts.push_back(Addr::v4(10, 0, 0, 2)); hosts.push_back(Addr::v4(192, 168, 1, 3));
        const uint16_t ids[3] = { 7, 8, 0xffff };
        int nd = (int)cfg.small(1, 5);
        double dup = cfg.chance(0.6) ? cfg.unit() * 0.4 : 0, loss = cfg.chance(0.3) ? cfg.unit() * 0.2 : 0;
        bool reorder = !cfg.chance(0.15), vary_ttl = cfg.chance(0.1), with_opts = cfg.chance(0.3);
        p.cfg.set("dup", fmt("%.3f", dup)).set("loss", fmt("%.3f", loss)).set("reorder", reorder ? 1 : 0).set("varyttl", vary_ttl ? 1 : 0);
        struct Rec { int64_t t; uint64_t ord; int dg; Bytes frame; std::string note; };
        std::vector<Rec> recs; uint64_t ord = 0; std::map<std::string, int64_t> key_busy_until; std::map<std::string, uint64_t> faults;
        int64_t span = (int64_t)cfg.range(100, 100000);
        for (int i = 0; i < nd; ++i) {
            Dgram d; d.idx = i; size_t a = cfg.below(hosts.size()), b = cfg.below(hosts.size()); if (a == b) b = (a + 1) % hosts.size();
            d.h.src = hosts[a]; d.h.dst = hosts[b]; d.h.id = ids[cfg.below(cfg.chance(0.8) ? 2 : 3)];
            const uint8_t protos[6] = { 17, 17, 6, 1, 253, 47 }; d.h.proto = protos[cfg.below(6)]; if (d.h.proto == 47) d.h.proto = 253;
            d.h.ttl = (uint8_t)cfg.range(10, 255); d.h.tos = (uint8_t)cfg.next();
            if (with_opts && cfg.chance(0.6)) {
                // record route (type 7, not copied), then optionally a copied option (security-like 0x82.. use stream id 0x88 len 4) and padding
                size_t slots = (size_t)cfg.range(1, 3); d.h.options.push_back(7); d.h.options.push_back((uint8_t)(3 + 4 * slots)); d.h.options.push_back(4); for (size_t k = 0; k < 4 * slots; ++k) d.h.options.push_back(0);
                if (cfg.chance(0.5)) { d.h.options.push_back(0x88); d.h.options.push_back(4); d.h.options.push_back((uint8_t)cfg.next()); d.h.options.push_back((uint8_t)cfg.next()); }
            }
            size_t maxp = tier == "thorough" ? (cfg.chance(0.05) ? 65000 : 3000) : 600;
            size_t want = (size_t)cfg.small(1, (int64_t)maxp); if (cfg.chance(0.15)) want = (size_t)cfg.range(1, 30);
            d.payload = l4_payload(wl, d.h.proto, d.h.src, d.h.dst, want);
            if (20 + ((d.h.options.size() + 3) / 4 * 4) + d.payload.size() > 65535) d.payload.resize(65535 - 20 - ((d.h.options.size() + 3) / 4 * 4));
            // path
            int hops = (int)cfg.range(1, 3); std::vector<std::pair<Ip4Hdr, Bytes> > pk; pk.push_back(std::make_pair(d.h, d.payload));
            size_t mtu = cfg.chance(0.25) ? 70000 : (size_t)cfg.range(68, 1500); if (cfg.chance(0.5)) mtu = (size_t)cfg.range(68, 200);
            // keep the fragment count bounded
            while ((d.payload.size() / std::max<size_t>(8, (mtu - 60) / 8 * 8)) > 200) mtu *= 2;
            for (int hop = 0; hop < hops; ++hop) {
                std::vector<std::pair<Ip4Hdr, Bytes> > nx;
                for (auto& x : pk) { auto fr = fragment(x.first, x.second, mtu, net, vary_ttl); if (fr.size() > 1 && hop > 0) faults["fault.refragmentation"]++; nx.insert(nx.end(), fr.begin(), fr.end()); }
                pk.swap(nx); if (mtu > 68 + 16) mtu = std::max<size_t>(68, mtu - (size_t)cfg.range(0, (int64_t)mtu / 2));
            }
            // fault: an inconsistent ("teardrop"-like) set - one middle fragment never arrives and a stray fragment of exactly its size overlaps
            // another one, so end, first fragment and byte count are all there while a hole remains. No datagram may be produced from it, and
            // once it has been given up on the key must be usable again by a later well-formed datagram (recovery after the fault)
            bool hostile = false;
            if (pk.size() >= 3 && cfg.chance(0.08)) {
                std::vector<size_t> js, is; for (size_t k = 1; k + 1 < pk.size(); ++k) js.push_back(k);
                size_t j = js[cfg.below(js.size())], sj = pk[j].second.size();
                for (size_t k = 0; k + 1 < pk.size(); ++k) if (k != j && pk[k].second.size() >= 16) is.push_back(k);
                if (!is.empty() && sj > 0 && sj % 8 == 0) {
                    size_t i = is[cfg.below(is.size())]; std::pair<Ip4Hdr, Bytes> extra = pk[i]; extra.first.frag_off8 = (uint16_t)(pk[i].first.frag_off8 + 1); extra.first.mf = true; extra.second = wl.bytes(sj);
                    pk.erase(pk.begin() + j); pk.insert(pk.begin() + (size_t)cfg.below(pk.size() + 1), extra); hostile = true; faults["fault.inconsistent_fragment_set"]++;
                }
            }
            // same key reused sequentially: start after everything of the earlier datagram has arrived; the earlier one then must not leave late duplicates
            std::string key = d.h.src.hexs() + d.h.dst.hexs() + fmt("%u", d.h.id);
            int64_t t0 = (int64_t)cfg.below((uint64_t)span);
            bool reused = key_busy_until.count(key) > 0; if (reused) { t0 = key_busy_until[key] + 1 + (int64_t)cfg.below(1000); faults["fault.id_reuse_after_completion"]++; }
            int64_t tmax = t0; bool lost_any = false, dup_any = false;
            for (size_t k = 0; k < pk.size(); ++k) {
                Bytes frame = eth_bytes(Mac::of(2), Mac::of(1), 0x0800, ip4_bytes(pk[k].first, pk[k].second), cfg.chance(0.7));
                if (pk.size() > 1 && net.chance(loss)) { faults["fault.loss"]++; lost_any = true; continue; }
                int copies = 1; if (net.chance(dup)) { copies = 2 + (net.chance(0.2) ? 1 : 0); faults["fault.dup"] += copies - 1; dup_any = true; }
                for (int c = 0; c < copies; ++c) {
                    Rec r; r.t = reorder ? t0 + (int64_t)net.below((uint64_t)span / 2 + 1) : t0 + (int64_t)k * 10 + c; r.ord = ++ord; r.dg = i; r.frame = frame;
                    r.note = fmt("dg%d:off=%u:len=%zu%s%s", i, pk[k].first.frag_off8 * 8, pk[k].second.size(), pk[k].first.mf ? ":MF" : "", c ? ":dup" : ""); recs.push_back(r); tmax = std::max(tmax, r.t);
                }
            }
            // an incomplete datagram keeps its key busy forever (premise: concurrent datagrams have different keys)
            // ... and so does one with duplicates: a duplicate arriving after completion legitimately starts a new partial set under that key
            key_busy_until[key] = (lost_any || (dup_any && pk.size() > 1)) ? INT64_MAX / 4 : tmax;
            if (pk.size() > 1) faults["fault.fragmented_datagram"]++;
            KV t; t.set("dg", i).set("src", d.h.src.hexs()).set("dst", d.h.dst.hexs()).set("id", d.h.id).set("proto", d.h.proto).set("nfrag", (int64_t)pk.size()).set("hostile", hostile ? 1 : 0).set("payload", d.payload);
            p.truth.push_back(t.line());
        }
        // drop datagrams that would reuse a key still busy (generator premise)
        std::stable_sort(recs.begin(), recs.end(), [](const Rec& a, const Rec& b) { return a.t != b.t ? a.t < b.t : a.ord < b.ord; });
        std::vector<Rec> keep; for (auto& r : recs) if (r.t < INT64_MAX / 8) keep.push_back(r);
        if (reorder && keep.size() > 1) faults["fault.reorder"]++;
        for (auto& r : keep) { KV k; k.set("t", r.t).set("dg", r.dg).set("n", r.note).set("f", r.frame); p.steps.push_back(k.line()); }
        // the application forgets state in mid-history: clear_streams() / remove_stream(id, src, dst) at random instants. What arrives of a
        // forgotten datagram afterwards starts over; the reference table is told the same thing at the same step
        { Rng fg = root.fork("forget"); if (fg.chance(0.15) && !p.steps.empty()) { int n = (int)fg.range(1, 2); for (int i = 0; i < n; ++i) { KV k; size_t pos = fg.below(p.steps.size() + 1);
              if (fg.chance(0.4)) k.set("forget", "all"); else { KV tk(p.truth[fg.below(p.truth.size())]); k.set("forget", "one").set("src", tk.str("src")).set("dst", tk.str("dst")).set("id", tk.num("id")); }
              p.steps.insert(p.steps.begin() + pos, k.line()); faults["fault.application_forgets_streams"]++; } p.cfg.set("forgets", 1); } }
        p.cfg.set("ctor", root.fork("ctor").chance(0.3) ? 1 : 0);
        for (auto& f : faults) p.cfg.set(f.first, (int64_t)f.second);
        return p;
    }

    struct RefStream { std::vector<std::pair<size_t, Bytes> > frags; bool end_known; size_t total, received; bool have_first; Decoded first; RefStream() : end_known(false), total(0), received(0), have_first(false) {} };

    Verdict execute(const Plan& p, RunStats& st, Trace& tr) {
        for (auto& kv : p.cfg.v) if (kv.first.compare(0, 6, "fault.") == 0) st.ctr[kv.first] += strtoull(kv.second.c_str(), 0, 10);
        std::map<int, Bytes> truth_payload; std::map<int, int> truth_proto;
        for (auto& t : p.truth) { KV k(t); truth_payload[(int)k.num("dg")] = k.bytes("payload"); truth_proto[(int)k.num("dg")] = (int)k.num("proto"); }
        std::map<std::string, RefStream> ref; Tins::IPv4Reassembler reasm_default, reasm_explicit(Tins::IPv4Reassembler::NONE); Tins::IPv4Reassembler& reasm = p.cfg.num("ctor", 0) ? reasm_explicit : reasm_default;   /* both constructors */
        uint64_t sig = 0xC08; int idx = -1; bool any_frag = false, any_fault = false; int prev_dg = -1; int64_t last_t = 0;
        for (auto& sl : p.steps) {
            ++idx; KV k(sl);
            if (k.has("forget")) { any_fault = true; st.inc("probe.forget_op");
                if (k.str("forget") == "all") { reasm.clear_streams(); ref.clear(); }
                else { Addr a = Addr::from_hex(k.str("src")), b = Addr::from_hex(k.str("dst")); uint16_t id = (uint16_t)k.num("id"); reasm.remove_stream(id, Tins::IPv4Address(Tins::Endian::be_to_host(get32(a.b))), Tins::IPv4Address(Tins::Endian::be_to_host(get32(b.b)))); ref.erase(a.hexs() + b.hexs() + fmt("%u", id)); }
                continue; }
            Bytes frame = k.bytes("f"); int dg = (int)k.num("dg"); last_t = k.num("t");
            Decoded d = decode_eth(frame); if (!d.is_ip || d.src.is6()) continue;
            std::string note = k.str("n"); sig = mix64(sig, fnv1a(note));
            if (note.find(":dup") != std::string::npos) any_fault = true; if (prev_dg >= 0 && prev_dg != dg) any_fault = true; prev_dg = dg;
            bool is_frag = d.mf || d.frag_off8 != 0;
            // ---- reference B3
            int expect = 0; /* 0 NOT_FRAGMENTED, 1 FRAGMENTED, 2 REASSEMBLED */ Bytes expect_payload; Decoded first;
            if (is_frag) {
                any_frag = true; expect = 1;
                std::string key = d.src.hexs() + d.dst.hexs() + fmt("%u", d.ipid);
                RefStream& s = ref[key]; size_t off = (size_t)d.frag_off8 * 8; bool dupf = false;
                for (auto& f : s.frags) if (f.first == off) dupf = true;
                if (dupf) st.inc("probe.duplicate_fragment");
                else {
                    s.received += d.l4.size(); s.frags.push_back(std::make_pair(off, d.l4)); std::sort(s.frags.begin(), s.frags.end(), [](const std::pair<size_t, Bytes>& a, const std::pair<size_t, Bytes>& b) { return a.first < b.first; });
                    if (!d.mf) { s.end_known = true; s.total = off + d.l4.size(); if (s.frags.size() == 1) st.inc("probe.last_fragment_first"); }
                    if (off == 0) { s.have_first = true; s.first = d; }
                    if (s.end_known) {
                        size_t pos = 0; bool gap = false; Bytes all;
                        for (auto& f : s.frags) { if (f.first != pos) { gap = true; break; } all.insert(all.end(), f.second.begin(), f.second.end()); pos += f.second.size(); }
                        // an inconsistent set (first fragment, end and byte count all there, yet a hole): never a datagram; it is given up on and the key is free again
                        if ((gap || pos != s.total) && s.have_first && s.received == s.total) { ref.erase(key); st.inc("probe.inconsistent_set_rejected"); any_fault = true; }
                        else if (!gap && pos == s.total) { expect = 2; expect_payload = all; first = s.first; ref.erase(key); st.inc("probe.completed"); if (off != 0 && d.mf) st.inc("probe.completed_by_middle_fragment"); if (off == 0) st.inc("probe.completed_by_first_fragment"); }
                    }
                }
            }
            if (expect == 2 && expect_payload != truth_payload[dg] && !p.cfg.num("forgets", 0)) return Verdict::bad("machinery:premise", "reference reassembly differs from the generated datagram", idx);
            // ---- SUT
            Tins::EthernetII pdu(frame.data(), (uint32_t)frame.size());
            Tins::PDU::serialization_type before; if (!is_frag) before = pdu.serialize();
            Tins::IPv4Reassembler::PacketStatus got = reasm.process(pdu);
            st.inc("chk.status");
            tr.add(fmt("step %d %s expect=%d got=%d", idx, note.c_str(), expect, (int)got));
            int g = got == Tins::IPv4Reassembler::NOT_FRAGMENTED ? 0 : got == Tins::IPv4Reassembler::FRAGMENTED ? 1 : 2;
            if (g != expect) {
                const char* names[3] = { "NOT_FRAGMENTED", "FRAGMENTED", "REASSEMBLED" };
                std::string cls = expect == 2 ? "frag:missed-reassembly" : g == 2 ? "frag:premature-reassembly" : "frag:wrong-status";
                return Verdict::bad(cls, fmt("%s: reported %s, reference says %s", note.c_str(), names[g], names[expect]), idx);
            }
            if (expect == 0) { if (pdu.serialize() != before) return Verdict::bad("frag:unfragmented-modified", "an unfragmented packet was modified by process()", idx); st.inc("probe.unfragmented_packet"); }
            if (expect == 2) {
                Tins::IP* ip = pdu.find_pdu<Tins::IP>(); if (!ip || !ip->inner_pdu()) return Verdict::bad("frag:no-inner", "REASSEMBLED but no inner layer", idx);
                st.inc("chk.reassembled");
                if (ip->fragment_offset() != 0 || (ip->flags() & Tins::IP::MORE_FRAGMENTS)) return Verdict::bad("frag:offset-or-mf-not-cleared", "offset/MF not cleared", idx);
                // header = first fragment's
                Bytes fo = first.ip_options; Bytes go; { Tins::PDU::serialization_type ws = pdu.serialize(); Decoded wd = decode_eth(Bytes(ws.begin(), ws.end())); go = wd.ip_options; while (!go.empty() && go.back() == 0) go.pop_back(); }
                while (!fo.empty() && fo.back() == 0) fo.pop_back();
                uint32_t s4 = ip->src_addr(), d4 = ip->dst_addr();
                bool hdr_ok = ip->tos() == first.tos && ip->id() == first.ipid && ip->ttl() == first.ttl && ip->protocol() == first.proto && memcmp(&s4, first.src.b, 4) == 0 && memcmp(&d4, first.dst.b, 4) == 0;
                if (!hdr_ok) return Verdict::bad("frag:header-not-first-fragments", fmt("reassembled header tos=%u id=%u ttl=%u proto=%u, first fragment had tos=%u id=%u ttl=%u proto=%u", ip->tos(), ip->id(), ip->ttl(), ip->protocol(), first.tos, first.ipid, first.ttl, first.proto), idx);
                if (go != fo) return Verdict::bad("frag:header-not-first-fragments", fmt("reassembled packet carries IP options %s, first fragment carried %s", hex(go).c_str(), hex(fo).c_str()), idx);
                // payload, via the control path premise
                bool roundtrips = false;
                try {
                    Ip4Hdr ch; ch.src = first.src; ch.dst = first.dst; ch.proto = first.proto; ch.id = first.ipid; ch.ttl = first.ttl;
                    Bytes whole = ip4_bytes(ch, expect_payload); Tins::IP ctl(whole.data(), (uint32_t)whole.size());
                    if (ctl.inner_pdu()) { Tins::PDU::serialization_type s = ctl.inner_pdu()->serialize(); roundtrips = Bytes(s.begin(), s.end()) == expect_payload; }
                } catch (Tins::malformed_packet&) {}
                if (!roundtrips) st.inc("probe.skipped_nonroundtrip");
                else {
                    Tins::PDU::serialization_type s = ip->inner_pdu()->serialize();
                    if (Bytes(s.begin(), s.end()) != expect_payload) return Verdict::bad("frag:payload-mismatch", fmt("reassembled payload (%zu bytes) differs from the original (%zu bytes)", s.size(), expect_payload.size()), idx);
                    Tins::PDU::PDUType want = first.proto == 6 ? Tins::PDU::TCP : first.proto == 17 ? Tins::PDU::UDP : first.proto == 1 ? Tins::PDU::ICMP : Tins::PDU::RAW;
                    if (ip->inner_pdu()->pdu_type() != want) return Verdict::bad("frag:wrong-inner-class", fmt("inner layer type %d for protocol %u", (int)ip->inner_pdu()->pdu_type(), first.proto), idx);
                    st.inc("chk.payload");
                }
            }
            { size_t open_n = ref.size(), nfr = 0, holes = 0; std::string key = d.src.hexs() + d.dst.hexs() + fmt("%u", d.ipid);
              if (ref.count(key)) { RefStream& s = ref[key]; nfr = s.frags.size(); size_t pos = 0; for (auto& f : s.frags) { if (f.first != pos) ++holes; pos = f.first + f.second.size(); } if (!s.end_known) ++holes; }
              st.states.insert(mix64(((std::min<size_t>(open_n, 5) * 8 + expect * 2 + (is_frag ? 1 : 0)) * 8 + std::min<size_t>(nfr, 7)) * 5 + std::min<size_t>(holes, 4), 0xC08)); }
        }
        st.sim_us = last_t; st.sched_sig = sig; st.nontrivial = any_frag && any_fault;
        return Verdict();
    }

    std::string signature(const Plan& p, const Verdict& v) {
        std::string s = v.cls;
        // shape from the minimised plan: datagrams with equal id and swapped addresses; fragments of a datagram whose headers differ
        std::vector<KV> t; for (auto& l : p.truth) t.push_back(KV(l));
        std::set<int> used; for (auto& sl : p.steps) used.insert((int)KV(sl).num("dg"));
        bool rev = false;
        for (auto& a : t) for (auto& b : t) if (used.count((int)a.num("dg")) && used.count((int)b.num("dg")) && a.num("dg") != b.num("dg") && a.str("id") == b.str("id") && a.str("src") == b.str("dst") && a.str("dst") == b.str("src")) rev = true;
        if (rev) s += "|same-id-reverse-direction";
        std::map<int, std::set<std::string> > hdrs;
        for (auto& sl : p.steps) { KV k(sl); Decoded d = decode_eth(k.bytes("f")); if (!d.is_ip) continue; Bytes o = d.ip_options; hdrs[(int)k.num("dg")].insert(fmt("%u/", d.ttl) + hex(o)); }
        for (auto& h : hdrs) if (h.second.size() > 1) { s += "|header-differs-across-fragments"; break; }
        return s;
    }
};

int main(int argc, char** argv) { FragEngine e; return engine_main(e, argc, argv); }
