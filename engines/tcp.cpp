// Engine `tcp`: C06 (mode flow), C19 (mode ack), C07 (mode follower).
// Real code: libtins parsers (EthernetII/IP/IPv6/TCP/RawPDU), TCPIP::Flow/DataTracker/AckTracker/
// Stream/StreamFollower/StreamIdentifier, legacy TCPStreamFollower. Stubs: both TCP endpoints, the
// network, the tap (sim/tcpmodel.hpp), and the reference models in this file.
#include "kernel.hpp"
#include "codec.hpp"
#include "tcpmodel.hpp"
#include "simclock.hpp"
#include "ledger.hpp"
#include <tins/tins.h>
#include <tins/tcp_ip/stream_follower.h>
#include <tins/tcp_ip/ack_tracker.h>
#include <tins/tcp_stream.h>

using namespace sim; using namespace codec; using namespace tcpm;

extern "C" __attribute__((used)) const char* __asan_default_options() { return "exitcode=77:detect_leaks=0:abort_on_error=0:allocator_may_return_null=1"; }
extern "C" __attribute__((used)) const char* __ubsan_default_options() { return "print_stacktrace=1:halt_on_error=1"; }

// ============================================================================ shared helpers
static const uint8_t V6A[16] = { 0x20, 0x01, 0x0d, 0xb8, 0, 0, 0, 0, 0, 0, 0, 0, 0, 0, 0, 0x0a };
static const uint8_t V6B[16] = { 0x20, 0x01, 0x0d, 0xb8, 0, 0, 0, 0, 0, 0, 0, 0, 0, 0, 0, 0x0b };
static const uint8_t V6C[16] = { 0x20, 0x01, 0x0d, 0xb8, 0, 0, 0, 0, 0, 0, 0, 0, 0, 0, 0, 0x0c };
// v6 hosts whose 16 address bytes equal a v4 host's 4 bytes followed by zeros
static const uint8_t V6LIKE_A[16] = { 10, 0, 0, 1, 0, 0, 0, 0, 0, 0, 0, 0, 0, 0, 0, 0 };
static const uint8_t V6LIKE_B[16] = { 10, 0, 0, 2, 0, 0, 0, 0, 0, 0, 0, 0, 0, 0, 0, 0 };

static uint32_t pick_isn(Rng& r, size_t len) {
    switch (r.below(6)) {
        case 0: return 0;
        case 1: return 0x7fffffffu - (uint32_t)r.below(len + 3);             // 2^31 edge
        case 2: return 0xffffffffu - (uint32_t)r.below(len + 3);             // stream straddles 2^32
        case 3: return 0xffffffffu - (uint32_t)r.below(8);                   // wrap right at the start
        case 4: return (uint32_t)(0u - (uint32_t)(len / 2) - (uint32_t)r.below(4));
        default: return (uint32_t)r.next();
    }
}

static void net_swarm(Rng& cfg, NetCfg& n, KV& out) {
    n.lat = 1000;
    bool en_loss = !cfg.chance(0.33), en_dup = !cfg.chance(0.33), en_jit = !cfg.chance(0.25), en_cap = cfg.chance(0.3);
    n.loss = en_loss ? cfg.unit() * 0.4 : 0; n.dup = en_dup ? cfg.unit() * 0.3 : 0;
    n.jit = en_jit ? (int64_t)cfg.small(0, 50000) : 0; n.tap_jit = en_jit && cfg.chance(0.5) ? (int64_t)cfg.small(0, 20000) : 0;
    n.tap_loss = en_cap ? 0.01 + cfg.unit() * 0.09 : 0; n.tap_dup = cfg.chance(0.2) ? cfg.unit() * 0.1 : 0;
    out.set("loss", fmt("%.3f", n.loss)).set("dup", fmt("%.3f", n.dup)).set("jit", n.jit).set("tapjit", n.tap_jit).set("caploss", fmt("%.3f", n.tap_loss));
}

static std::string step_line(const TapRec& r) { KV k; k.set("t", r.t).set("c", r.conn).set("d", r.dir).set("n", r.note).set("f", r.frame); return k.line(); }

// Reference B1: byte-set reassembler for one direction, driven by frames decoded with sim/codec.
struct RefDir {
    uint32_t base; const Bytes* truth; size_t toff; std::vector<bool> arrived; size_t k; bool base_known;   // base <-> (*truth)[toff]
    // probes (model side)
    std::vector<std::pair<size_t, size_t> > pending;   // arrived segments not yet below k
    RefDir() : base(0), truth(0), toff(0), k(0), base_known(false) {}
    void init(uint32_t b, const Bytes* t, size_t off0 = 0) { base = b; truth = t; toff = std::min(off0, t->size()); arrived.assign(t->size() - toff, false); k = 0; base_known = true; pending.clear(); }
    const uint8_t* expect() const { return truth->data() + toff; }
    // returns false if the generator premise is broken (bytes are not those of the stream)
    bool on_segment(uint32_t seq, const Bytes& pl, RunStats& st, size_t* k_before = 0) {
        if (k_before) *k_before = k;
        if (pl.empty()) return true;
        int64_t off = (int64_t)seq_diff(seq, base);
        uint32_t end = seq + (uint32_t)pl.size();
        if (end < seq) st.inc("probe.segment_straddles_2^32");
        if (off + (int64_t)pl.size() <= 0) { st.inc("probe.stale_segment"); if (off + (int64_t)pl.size() == 0) st.inc("probe.stale_ends_at_base"); return true; }
        size_t lo = off < 0 ? 0 : (size_t)off, hi = (size_t)(off + (int64_t)pl.size());
        if (hi > arrived.size()) return false;
        for (size_t i = lo; i < hi; ++i) if (pl[(size_t)((int64_t)i - off)] != (*truth)[toff + i]) return false;
        if (hi <= k) { st.inc("probe.wholly_old_retransmit"); if (hi == k) st.inc("probe.segment_ends_at_delivery_point"); }
        if (lo < k && hi > k) st.inc("probe.overlaps_delivery_point");
        int covered = 0, eqstart = 0;
        for (auto& p : pending) { if (p.first >= lo && p.second <= hi) ++covered; if (p.first == lo && p.second != hi) ++eqstart; }
        if (covered >= 2) st.inc("probe.covers>=2_buffered"); if (eqstart) st.inc("probe.equal_start_other_length");
        for (size_t i = lo; i < hi; ++i) arrived[i] = true;
        size_t k0 = k; while (k < arrived.size() && arrived[k]) ++k;
        if (lo > k0) st.inc("probe.out_of_order_arrival");
        int drained = 0; std::vector<std::pair<size_t, size_t> > keep;
        pending.push_back(std::make_pair(lo, hi));
        for (auto& p : pending) { if (p.second <= k) ++drained; else keep.push_back(p); }
        pending.swap(keep); if (pending.size() > 64) pending.erase(pending.begin(), pending.begin() + 32);
        if (drained >= 3) st.inc("probe.drain>=3_segments");
        return true;
    }
};

static bool bytes_eq(const std::vector<uint8_t>& a, const Bytes& t, size_t n) { return a.size() == n && (n == 0 || memcmp(a.data(), t.data(), n) == 0); }

// Checks items 3,4 of the C06 oracle on a Flow-like object
template <class FlowT>
static bool check_buffered(const FlowT& f, const RefDir& ref, std::string& why, RunStats& st) {
    uint64_t sum = 0; uint32_t dp = ref.base + (uint32_t)ref.k;
    uint64_t abst = 0; int nchunks = 0; int64_t prev_end = -1;
    for (auto& kv : f.buffered_payload()) {
        sum += kv.second.size();
        int64_t off = (int64_t)seq_diff(kv.first, ref.base);
        if (seq_diff(kv.first, dp) <= 0) { why = fmt("chunk at stream offset %lld (len %zu) is at or below the delivery point %zu", (long long)off, kv.second.size(), ref.k); return false; }
        if (off < 0 || (size_t)off + kv.second.size() > ref.arrived.size()) { why = fmt("chunk offset %lld len %zu outside the stream", (long long)off, kv.second.size()); return false; }
        for (size_t i = 0; i < kv.second.size(); ++i) {
            if (!ref.arrived[(size_t)off + i]) { why = fmt("buffered byte at offset %lld never arrived", (long long)off + (long long)i); return false; }
            if (kv.second[i] != (*ref.truth)[ref.toff + (size_t)off + i]) { why = fmt("buffered byte at offset %lld differs from the stream", (long long)off + (long long)i); return false; }
        }
        ++nchunks;
    }
    if ((uint64_t)f.total_buffered_bytes() != sum) { why = fmt("total_buffered_bytes()=%u but chunks hold %llu bytes", (unsigned)f.total_buffered_bytes(), (unsigned long long)sum); return false; }
    // abstract state: chunk count (cap 6), pairwise relation of neighbours in stream order, first chunk vs delivery point, wrap inside live range
    std::vector<std::pair<int64_t, int64_t> > ch;
    for (auto& kv : f.buffered_payload()) { int64_t off = seq_diff(kv.first, ref.base); ch.push_back(std::make_pair(off, off + (int64_t)kv.second.size())); }
    std::sort(ch.begin(), ch.end());
    abst = std::min<size_t>(ch.size(), 6);
    for (size_t i = 0; i < ch.size() && i < 6; ++i) {
        int rel = 0; if (i) { if (ch[i].first > prev_end) rel = 1; else if (ch[i].first == prev_end) rel = 2; else if (ch[i].second <= prev_end) rel = 3; else rel = 4; }
        else rel = ch[0].first == (int64_t)ref.k + 1 ? 5 : 6;
        abst = abst * 7 + rel; prev_end = std::max(prev_end, ch[i].second);
    }
    uint32_t hi_seq = ref.base + (uint32_t)(ch.empty() ? ref.k : (size_t)prev_end);
    abst = abst * 2 + (hi_seq < dp ? 1 : 0);
    st.states.insert(mix64(abst, 0xC06));
    (void)nchunks;
    return true;
}

// ============================================================================ mode flow (C06)
struct FlowSut {
    size_t ooo_calls = 0; uint32_t ooo_seq = 0; std::vector<uint8_t> ooo_payload;      // out-of-order callback: how often, and with what
    Tins::TCPIP::Flow* flow; Bytes delivered; bool cleanup; size_t callbacks; size_t last_cb_total; bool repeated;
    FlowSut() : flow(0), cleanup(false), callbacks(0), last_cb_total(0), repeated(false) {}
    ~FlowSut() { delete flow; }
};

struct TcpEngine : Engine {
    const char* name() const { return "tcp"; }
    std::string components_json() const {
        return "{\"real\":[\"libtins EthernetII/IP/IPv6/TCP/RawPDU parsers\",\"TCPIP::DataTracker\",\"TCPIP::Flow\",\"TCPIP::AckTracker\",\"TCPIP::Stream\",\"TCPIP::StreamFollower\",\"TCPIP::StreamIdentifier\",\"legacy TCPStreamFollower/TCPStream\",\"boost::icl\"],"
               "\"stub\":[\"TCP client and server endpoints (reference model with RTO, re-segmentation, SACK)\",\"network: loss/dup/jitter\",\"passive tap with capture loss/dup/jitter\",\"packet timestamps (simulated clock)\",\"independent frame encoder/decoder sim/codec\"]}";
    }
    std::string rule_text(const std::string& mode) const {
        if (mode == "flow") return "one run = one seeded simulation of a TCP connection (closed-loop endpoints with RTO/re-segmentation/SACK, or chaos: random overlapping cover in random arrival order) observed by a passive tap; the tap's frame list is fed to libtins Flow (+StreamFollower, +legacy follower) and the byte-set reference is compared after every frame. distinct = distinct schedule signature (hash of arrival order relative to emission order + per-frame fault notes + segment geometry); non-trivial = at least one reordering/dup/retransmission/loss fired and at least one frame advanced or buffered data";
        if (mode == "ack") return "one run = one seeded simulation in which a reference receiver gets the segments in network-chosen order and answers with cumulative ACK + RFC 2018 SACK blocks; the ACK packets that reach the tap (FIFO path, ACK loss) drive libtins AckTracker; after every ACK the model set of acknowledged bytes is compared (ack number, interval set as byte set modulo 2^32, 20 edge-biased is_segment_acked queries). distinct = distinct ACK/SACK history signature; non-trivial = at least one SACK block was delivered and at least one ACK was lost, duplicated or landed inside/at the edge of a SACKed block";
        return "one run = 1-6 simulated TCP connections (v4/v6, colliding tuples, scripts: handshake, data, FIN/RST close, silence, mid-stream attach) interleaved at a passive tap with simulated timestamps; a reference connection table predicts announce/route/forget/termination events after every frame. distinct = distinct schedule signature; non-trivial = >=2 connections interleaved or a fault fired, and at least one callback was predicted";
    }

    // ------------------------------------------------------------------ generation
    Plan generate(uint64_t seed, const std::string& mode, const std::string& tier) {
        if (mode == "ack") return gen_ack(seed, tier);
        if (mode == "follower") return gen_follower(seed, tier);
        return gen_flow(seed, tier);
    }

    ConnSpec basic_conn(Rng& cfg, Rng& wl, const std::string& tier, bool v6ok, size_t maxlen_quick) {
        ConnSpec c; bool v6 = v6ok && cfg.chance(0.3);
        c.addr[0] = v6 ? Addr::v6(V6A) : Addr::v4(10, 0, 0, 1); c.addr[1] = v6 ? Addr::v6(V6B) : Addr::v4(10, 0, 0, 2);
        c.port[0] = (uint16_t)cfg.range(1024, 65535); c.port[1] = cfg.chance(0.5) ? 80 : (uint16_t)cfg.range(1, 65535);
        size_t maxlen = tier == "thorough" ? (cfg.chance(0.1) ? 65536 : 8000) : maxlen_quick;
        size_t l0 = (size_t)cfg.small(1, (int64_t)maxlen), l1 = cfg.chance(0.5) ? (size_t)cfg.small(0, (int64_t)maxlen / 2) : 0;
        c.data[0] = wl.bytes(l0); c.data[1] = wl.bytes(l1);
        c.isn[0] = pick_isn(cfg, l0); c.isn[1] = pick_isn(cfg, l1);
        for (int s = 0; s < 2; ++s) { c.mss[s] = (int)cfg.small(1, 1460); if (c.data[s].size() / c.mss[s] > 300) c.mss[s] = (int)(c.data[s].size() / 300 + 1); c.wnd[s] = c.mss[s] * (int)cfg.range(1, 10); }
        c.sack = cfg.chance(0.7); c.tsopt = cfg.chance(0.2); c.fin_with_data = cfg.chance(0.3); { Rng sa = cfg.fork("sackasym"); c.sack_asym = sa.chance(0.2) ? (int)sa.range(1, 2) : 0; c.ecn = sa.chance(0.2); }
        return c;
    }

    Plan gen_flow(uint64_t seed, const std::string& tier) {
        Rng root(seed); Rng cfg = root.fork("cfg"), wl = root.fork("workload");
        Plan p; p.engine = "tcp"; p.mode = "flow"; p.seed = seed; p.cfg.set("property", "C06");
        ConnSpec c = basic_conn(cfg, wl, tier, true, 3000);
        bool chaos = cfg.chance(0.4);
        c.handshake = cfg.chance(0.7); c.close = cfg.chance(0.6) ? 1 : 0;
        World w; w.net_rng = root.fork("net"); net_swarm(cfg, w.net, p.cfg);
        p.cfg.set("style", chaos ? "chaos" : "endpoint").set("cleanup", cfg.chance(0.5) ? 1 : 0).set("init", c.handshake ? "syn" : "ctor")
             .set("follower", c.handshake && cfg.chance(0.6) ? 1 : 0).set("legacy", c.handshake && !c.addr[0].is6() && cfg.chance(0.6) ? 1 : 0);
        // the application gives up on a hole: Flow::advance_sequence() at a random frame moves the delivery point ahead; from then on that direction is
        // judged by the model-free half of the guarantee only (counter = bytes held, nothing at or below the delivery point, delivery point never moves back)
        { Rng sk = root.fork("skip"); p.cfg.set("skipat", sk.chance(0.12) ? (int64_t)sk.small(1, 150) : -1).set("skipdir", (int64_t)sk.below(2)).set("skipby", (int64_t)sk.pick(std::vector<int>{1, 2, 7, 50, 300, 5000})); }
        { Rng lc = root.fork("legcopy"); p.cfg.set("legcopy", lc.chance(0.35) ? (int64_t)lc.small(0, 120) : -1).set("legcopykind", (int64_t)lc.below(2)); }
        if (!chaos) {
            ConnSim sim(w, c, root.fork("conn").next()); sim.start(); w.q.run(INT64_MAX, 400000);
            p.cfg.set("simus", w.q.now);
        } else gen_chaos(w, c, root, cfg);
        finish_tap(w, false);
        enforce_handshake_first(w);
        p.truth.push_back(c.line());
        // fault: memory pressure - a large allocation (the growing payload vector) made while the stand-alone Flow handles a frame fails with bad_alloc;
        // the application catches it and the same segment is handed over again (the peer's retransmission)
        Rng af = root.fork("allocfail"); const bool allocfail = af.chance(0.2); p.cfg.set("allocfail", allocfail ? 1 : 0);
        for (auto& r : w.tap) { std::string sl = step_line(r); if (allocfail && af.chance(0.08)) { KV k(sl); k.set("af", (int64_t)af.range(1, 2)); sl = k.line(); } p.steps.push_back(sl); }
        for (auto& f : w.faults) p.cfg.set(f.first, (int64_t)f.second);
        return p;
    }

    // chaos: every segment of a random overlapping cover (+dups, +stale) is in flight at once with iid delays
    void gen_chaos(World& w, ConnSpec& c, Rng& root, Rng& cfg) {
        Rng r = root.fork("chaos"); uint16_t ipid = (uint16_t)r.next();
        int64_t span = (int64_t)cfg.range(1000, 200000);
        auto put = [&](int dir, const TcpSeg& s0, int64_t t, const std::string& note) {
            TcpSeg s = s0; s.sport = c.port[dir]; s.dport = c.port[1 - dir];
            TapRec rec; rec.t = t; rec.ord = ++w.ord; rec.conn = c.id; rec.dir = dir; rec.note = note;
            rec.frame = tcp_frame(s, c.addr[dir], c.addr[1 - dir], mac_of(c.addr[dir]), mac_of(c.addr[1 - dir]), ipid++);
            w.tap.push_back(rec);
        };
        int64_t t0 = 0;
        if (c.handshake) {
            TcpSeg a; a.seq = c.isn[0]; a.flags = TH_SYN; a.opt_mss((uint16_t)c.mss[0]); put(0, a, 0, "syn");
            TcpSeg b; b.seq = c.isn[1]; b.ack = c.isn[0] + 1; b.flags = TH_SYN | TH_ACK; b.opt_mss((uint16_t)c.mss[1]); put(1, b, 10, "synack");
            TcpSeg d; d.seq = c.isn[0] + 1; d.ack = c.isn[1] + 1; d.flags = TH_ACK; put(0, d, 20, "hs-ack");
            if (r.chance(0.3)) { put(0, a, 25 + (int64_t)r.below((uint64_t)span), "syn+dup"); w.faults["fault.dup"]++; }
            t0 = 30;
        }
        for (int dir = 0; dir < 2; ++dir) {
            const Bytes& data = c.data[dir]; size_t L = data.size(); uint32_t base = c.isn[dir] + 1;
            std::vector<std::pair<size_t, size_t> > segs;
            size_t pos = 0; while (pos < L) { size_t sz = std::min<size_t>(L - pos, (size_t)r.range(1, c.mss[dir])); segs.push_back(std::make_pair(pos, sz)); pos += sz; }
            size_t extra = (size_t)r.small(0, (int64_t)segs.size() + 4);
            for (size_t i = 0; i < extra && L; ++i) {
                size_t off = (size_t)r.below(L), sz = (size_t)r.range(1, std::min<int64_t>(3 * c.mss[dir], (int64_t)(L - off)));
                int style = (int)r.below(6);
                if (style == 0 && !segs.empty()) { auto s = segs[r.below(segs.size())]; off = s.first; sz = s.second; w.faults["fault.dup"]++; }                                   // exact duplicate
                else if (style == 1 && !segs.empty()) { auto s = segs[r.below(segs.size())]; off = s.first; sz = (size_t)r.range(1, (int64_t)(L - off)); w.faults["fault.rtx_same_start"]++; }   // same start, other length
                else if (style == 2 && !segs.empty()) { auto s = segs[r.below(segs.size())]; size_t e = s.first + s.second; sz = (size_t)r.range(1, (int64_t)e); off = e - sz; w.faults["fault.rtx_same_end"]++; }  // same end
                else w.faults["fault.retransmit"]++;
                segs.push_back(std::make_pair(off, sz));
            }
            bool drop_some = cfg.chance(0.3);
            for (auto& s : segs) {
                if (drop_some && r.chance(0.1)) { w.faults["fault.capture_loss"]++; continue; }
                TcpSeg t; t.seq = base + (uint32_t)s.first; t.ack = c.isn[1 - dir] + 1; t.flags = TH_ACK | TH_PSH; t.payload.assign(data.begin() + s.first, data.begin() + s.first + s.second);
                put(dir, t, t0 + (int64_t)r.below((uint64_t)span), fmt("chaos:off=%zu:len=%zu", s.first, s.second));
            }
            w.faults["fault.reorder"] += segs.size() > 1 ? 1 : 0;
            // stale segments wholly before ISN+1 carrying foreign bytes; zero-length segments
            int nstale = (int)r.small(0, 4);
            for (int i = 0; i < nstale; ++i) {
                size_t sz = (size_t)r.range(1, 50); uint32_t gap = r.chance(0.4) ? 0 : (uint32_t)r.below(1000);
                TcpSeg t; t.seq = base - (uint32_t)sz - gap - (c.handshake && gap == 0 ? 0 : 0); t.ack = c.isn[1 - dir] + 1; t.flags = TH_ACK; t.payload = r.bytes(sz);
                put(dir, t, t0 + (int64_t)r.below((uint64_t)span), fmt("stale:gap=%u:len=%zu", gap, sz)); w.faults["fault.stale_segment"]++;
            }
            if (r.chance(0.5)) { TcpSeg t; t.seq = base + (uint32_t)r.below(L + 1); t.ack = c.isn[1 - dir] + 1; t.flags = TH_ACK; put(dir, t, t0 + (int64_t)r.below((uint64_t)span), "pure-ack"); }
        }
        if (c.close == 1) { for (int dir = 0; dir < 2; ++dir) { TcpSeg t; t.seq = c.isn[dir] + 1 + (uint32_t)c.data[dir].size(); t.ack = 0; t.flags = TH_FIN | TH_ACK; put(dir, t, t0 + span + 10 + dir, "fin"); } }
    }

    // premise of the follower checks: a connection's SYN / SYN-ACK reach the tap before its other frames
    static void enforce_handshake_first(World& w) {
        std::map<int, int> stage;   // conn -> 0 none, 1 syn seen, 2 synack seen
        std::vector<TapRec> out, held;
        for (auto& r : w.tap) {
            bool syn = r.note.compare(0, 3, "syn") == 0 && r.note.compare(0, 6, "synack") != 0, synack = r.note.compare(0, 6, "synack") == 0;
            int& s = stage[r.conn];
            bool needs_hs = false; for (auto& x : w.tap) if (x.conn == r.conn && x.note.compare(0, 3, "syn") == 0) { needs_hs = true; break; }
            if (!needs_hs) { out.push_back(r); continue; }
            if (syn) { if (s == 0) s = 1; out.push_back(r); }
            else if (synack) { if (s >= 1) { if (s == 1) s = 2; out.push_back(r); } else held.push_back(r); }
            else if (s == 2) out.push_back(r); else held.push_back(r);
            if (s == 2 && !held.empty()) { std::vector<TapRec> still; for (auto& h : held) { if (h.conn == r.conn) { TapRec c = h; c.t = r.t; out.push_back(c); } else still.push_back(h); } held.swap(still); }
            else if (s == 1 && !held.empty()) { std::vector<TapRec> still; for (auto& h : held) { if (h.conn == r.conn && h.note.compare(0, 6, "synack") == 0) { TapRec c = h; c.t = r.t; out.push_back(c); s = 2; } else still.push_back(h); } held.swap(still);
                if (s == 2) { std::vector<TapRec> st2; for (auto& h : held) { if (h.conn == r.conn) { TapRec c = h; c.t = r.t; out.push_back(c); } else st2.push_back(h); } held.swap(st2); } }
        }
        // frames of connections whose handshake never reached the tap are dropped (tap never learns the base)
        w.tap.swap(out);
    }

    // ------------------------------------------------------------------ execution
    Verdict execute(const Plan& p, RunStats& st, Trace& tr) {
        if (p.mode == "ack") return exec_ack(p, st, tr);
        if (p.mode == "follower") return exec_follower(p, st, tr);
        return exec_flow(p, st, tr);
    }

    static Tins::PDU* parse(const Bytes& f) { return new Tins::EthernetII(f.data(), (uint32_t)f.size()); }

    Verdict exec_flow(const Plan& p, RunStats& st, Trace& tr) {
        if (p.truth.empty()) return Verdict();
        ConnSpec c = ConnSpec::parse(p.truth[0]);
        bool cleanup = p.cfg.num("cleanup"), use_follower = p.cfg.num("follower"), use_legacy = p.cfg.num("legacy");
        // premise scan (robust under step removal by the minimiser): a Flow that must learn its base from the SYN gets
        // one only if the first frame of its direction is that SYN; follower copies need SYN, then SYN-ACK, before anything else
        bool init_syn_d[2] = { false, false }; bool hs_ok = false;
        {
            int seen[2] = { 0, 0 }; int order = 0; bool bad = false; int stage = 0;
            for (auto& sl : p.steps) {
                KV k(sl); Decoded d = decode_eth(k.bytes("f")); if (!d.is_tcp) continue;
                int dir = (d.src == c.addr[0] && d.tcp.sport == c.port[0]) ? 0 : 1;
                bool syn = (d.tcp.flags & TH_SYN) && (dir == 0 ? !(d.tcp.flags & TH_ACK) : (d.tcp.flags & TH_ACK) != 0);
                if (!seen[dir]++) init_syn_d[dir] = syn && p.cfg.str("init") == "syn";
                if (stage == 0) { if (dir == 0 && syn) stage = 1; else bad = true; }
                else if (stage == 1) { if (dir == 1 && syn) stage = 2; else if (!(dir == 0 && syn)) bad = true; }
                ++order;
            }
            hs_ok = !bad && stage == 2;
        }
        if (!hs_ok) { use_follower = false; use_legacy = false; }
        for (auto& kv : p.cfg.v) if (kv.first.compare(0, 6, "fault.") == 0) st.ctr[kv.first] += strtoull(kv.second.c_str(), 0, 10);
        RefDir ref[2]; for (int d = 0; d < 2; ++d) ref[d].init(c.isn[d] + 1, &c.data[d]);
        const int64_t skipat = p.cfg.num("skipat", -1); const int skipdir = (int)p.cfg.num("skipdir", 0); const uint32_t skipby = (uint32_t)p.cfg.num("skipby", 1); bool skipped[2] = { false, false }, degraded[2] = { false, false }; uint32_t skip_seq[2] = { 0, 0 };
        // (A) stand-alone Flow per direction
        FlowSut fs[2];
        for (int d = 0; d < 2; ++d) {
            uint32_t start = init_syn_d[d] ? (uint32_t)(0xdead0000u + d) : c.isn[d] + 1;
            if (c.addr[0].is6()) fs[d].flow = new Tins::TCPIP::Flow(Tins::IPv6Address(c.addr[1 - d].b), c.port[1 - d], start);
            else fs[d].flow = new Tins::TCPIP::Flow(Tins::IPv4Address(Tins::Endian::be_to_host(get32(c.addr[1 - d].b)) ), c.port[1 - d], start);
            fs[d].cleanup = cleanup; FlowSut* self = &fs[d];
            fs[d].flow->out_of_order_callback([self](Tins::TCPIP::Flow&, uint32_t seq, const Tins::TCPIP::Flow::payload_type& pl) { ledger::Unscope app; ++self->ooo_calls; self->ooo_seq = seq; self->ooo_payload = pl; });
            fs[d].flow->data_callback([self](Tins::TCPIP::Flow& f) {
                ledger::Unscope app; ++self->callbacks;
                if (self->cleanup) { self->delivered.insert(self->delivered.end(), f.payload().begin(), f.payload().end()); f.payload().clear(); }
            });
        }
        // (B) StreamFollower
        struct FolState { Bytes got[2]; int announced; int closed; Tins::TCPIP::Stream* live; bool terminated; } fol; fol.announced = 0; fol.closed = 0; fol.live = 0; fol.terminated = false;
        Tins::TCPIP::StreamFollower follower;
        if (use_follower) {
            follower.new_stream_callback([&fol, cleanup](Tins::TCPIP::Stream& s) {
                ++fol.announced; fol.live = &s; s.auto_cleanup_payloads(cleanup);
                s.client_data_callback([&fol, cleanup](Tins::TCPIP::Stream& s2) { if (cleanup) fol.got[0].insert(fol.got[0].end(), s2.client_payload().begin(), s2.client_payload().end()); else fol.got[0] = s2.client_payload(); });
                s.server_data_callback([&fol, cleanup](Tins::TCPIP::Stream& s2) { if (cleanup) fol.got[1].insert(fol.got[1].end(), s2.server_payload().begin(), s2.server_payload().end()); else fol.got[1] = s2.server_payload(); });
                s.stream_closed_callback([&fol](Tins::TCPIP::Stream&) { ++fol.closed; fol.live = 0; });
            });
            follower.stream_termination_callback([&fol](Tins::TCPIP::Stream&, Tins::TCPIP::StreamFollower::TerminationReason) { fol.live = 0; fol.terminated = true; });
            follower.stream_keep_alive(std::chrono::hours(10000));
        }
        // (C) legacy follower
        struct LegState { Bytes got[2]; bool ended; Tins::TCPStream* live; } leg; leg.ended = false; leg.live = 0;
        // a copy of the legacy stream object taken in mid-history (copy construction, or assignment over an older copy) is fed the same
        // frames from then on and must deliver the same prefix: copies are deep and carry the out-of-order segments held at that moment
        std::unique_ptr<Tins::TCPStream> leg_copy; bool leg_copied = false; const int64_t legcopy_at = p.cfg.num("legcopy", -1), legcopy_kind = p.cfg.num("legcopykind", 0);
        Tins::TCPStreamFollower legacy;
        bool fol_dead = false; bool leg_gate = false; int fin_seen[2] = { 0, 0 }; bool rst_seen = false; bool leg_syn = false;
        bool any_progress = false, any_fault = false;
        uint64_t sig = 0xC06;
        int idx = -1;
        for (auto& sl : p.steps) {
            ++idx; KV k(sl); Bytes frame = k.bytes("f"); int64_t t = k.num("t");
            Decoded d = decode_eth(frame);
            if (!d.is_tcp) continue;
            int dir = (d.src == c.addr[0] && d.tcp.sport == c.port[0]) ? 0 : 1;
            std::string note = k.str("n");
            if (note.find("rtx") != std::string::npos || note.find("dup") != std::string::npos || note.find("stale") != std::string::npos || note.find("chaos") != std::string::npos) any_fault = true;
            sig = mix64(sig, fnv1a(note) ^ (uint64_t)dir);
            size_t k_before = 0;
            if (!(d.tcp.flags & TH_SYN)) { if (!ref[dir].on_segment(d.tcp.seq, d.tcp.payload, st, &k_before)) return Verdict::bad("machinery:premise", "generated segment does not carry bytes of the stream", idx); }
            else k_before = ref[dir].k;
            if (ref[dir].k > k_before || (!d.tcp.payload.empty() && seq_diff(d.tcp.seq, ref[dir].base) > (int32_t)k_before)) any_progress = true;
            tr.add(fmt("step %d t=%lld dir=%d seq=%u len=%zu flags=%02x k=%zu", idx, (long long)t, dir, d.tcp.seq, d.tcp.payload.size(), d.tcp.flags, ref[dir].k));
            // ---- (A)
            {
                std::unique_ptr<Tins::PDU> pdu(parse(frame));
                FlowSut& f = fs[dir]; size_t cb0 = f.callbacks; size_t before = cleanup ? f.delivered.size() : f.flow->payload().size();
                // the out-of-order callback fires exactly for a data segment that lies wholly before the delivery point or starts beyond it, with that segment
                const size_t ooo0 = f.ooo_calls; const int64_t off0 = (int64_t)seq_diff(d.tcp.seq, ref[dir].base + (uint32_t)k_before); const size_t plen = d.tcp.payload.size();
                const bool expect_ooo = !(d.tcp.flags & TH_SYN) && plen > 0 && (off0 > 0 || off0 + (int64_t)plen < 0);
                const int64_t af = k.num("af", 0); bool alloc_failed = false;
                if (af > 0) { ledger::fail_min_size = 128; ledger::fail_countdown = af; try { SUT(f.flow->process_packet(*pdu)); } catch (std::bad_alloc&) { alloc_failed = true; st.inc("fault.allocation_failed_inside_flow"); } ledger::fail_countdown = 0; ledger::fail_min_size = 0;
                    // after a failure part-way the tracker may hold appended bytes it has not announced and a chunk at the delivery point it has not appended yet (both
                    // surface with the next segment that is not stale): from here on this direction is judged for safety only - what it delivers is a prefix of the
                    // stream and never more than has arrived - plus the counter invariant; maximality is no longer demanded
                    if (alloc_failed) { any_fault = true; std::unique_ptr<Tins::PDU> again(parse(frame)); f.flow->process_packet(*again); if (!degraded[dir] && !skipped[dir]) skip_seq[dir] = ref[dir].base; degraded[dir] = true; } }
                else f.flow->process_packet(*pdu);
                if (skipped[dir] || degraded[dir]) {      // model-free invariants only
                    if (degraded[dir] && !skipped[dir]) { st.inc("chk.flow_after_allocation_failure"); const std::vector<uint8_t>& gd = cleanup ? f.delivered : f.flow->payload();
                        if (gd.size() > ref[dir].k || (!gd.empty() && memcmp(gd.data(), c.data[dir].data(), gd.size()) != 0)) return Verdict::bad(gd.size() > ref[dir].k ? "flow:delivered-beyond-arrived" : "flow:delivered-not-a-prefix", fmt("dir %d, after an allocation failure inside the flow and the segment's retransmission: %zu bytes delivered, %zu arrived in order", dir, gd.size(), ref[dir].k), idx); }
                    st.inc("chk.flow_after_skip"); uint64_t held = 0; for (auto& ch : f.flow->buffered_payload()) { held += ch.second.size(); if (!degraded[dir] && seq_diff(ch.first, f.flow->sequence_number()) <= 0) return Verdict::bad("flow:stale-buffered", fmt("after advance_sequence: chunk at seq %u (len %zu) is at or below the delivery point %u", ch.first, ch.second.size(), f.flow->sequence_number()), idx); }
                    if (held != (uint64_t)f.flow->total_buffered_bytes()) return Verdict::bad("flow:accounting", fmt("after advance_sequence: total_buffered_bytes()=%u but chunks hold %llu bytes", (unsigned)f.flow->total_buffered_bytes(), (unsigned long long)held), idx);
                    if (seq_diff(f.flow->sequence_number(), skip_seq[dir]) < 0) return Verdict::bad("flow:sequence-number", "delivery point moved backwards after advance_sequence", idx); skip_seq[dir] = f.flow->sequence_number();
                } else {
                st.inc("chk.out_of_order_callback"); if (expect_ooo) st.inc("probe.out_of_order_callback_expected");
                if (alloc_failed) { /* the segment was handed over twice */ } else if (f.ooo_calls - ooo0 != (expect_ooo ? 1u : 0u)) return Verdict::bad("flow:out-of-order-callback", fmt("dir %d: segment at offset %lld (len %zu) relative to the delivery point: out-of-order callback fired %zu times, expected %d", dir, (long long)off0, plen, f.ooo_calls - ooo0, expect_ooo ? 1 : 0), idx);
                if (expect_ooo && (f.ooo_seq != d.tcp.seq || f.ooo_payload != d.tcp.payload)) return Verdict::bad("flow:out-of-order-callback", "out-of-order callback reported another sequence number or payload than the segment's", idx);
                const std::vector<uint8_t>& got = cleanup ? f.delivered : f.flow->payload();
                st.inc("chk.flow");
                tr.add(fmt("  flow seqno=%u delivered=%zu chunks=%zu buffered=%u cb=%zu", f.flow->sequence_number(), got.size(), f.flow->buffered_payload().size(), f.flow->total_buffered_bytes(), f.callbacks));
                if (!bytes_eq(got, c.data[dir], ref[dir].k)) {
                    size_t n = std::min(got.size(), ref[dir].k); bool prefix = got.size() <= c.data[dir].size() && memcmp(got.data(), c.data[dir].data(), std::min(got.size(), c.data[dir].size())) == 0; (void)n;
                    std::string cls = !prefix ? "flow:delivered-not-a-prefix" : got.size() < ref[dir].k ? "flow:delivery-not-maximal" : "flow:delivered-beyond-arrived";
                    return Verdict::bad(cls, fmt("dir %d: delivered %zu bytes, reference prefix is %zu", dir, got.size(), ref[dir].k), idx);
                }
                if (f.flow->sequence_number() != ref[dir].base + (uint32_t)ref[dir].k) return Verdict::bad("flow:sequence-number", fmt("sequence_number()=%u expected %u", f.flow->sequence_number(), ref[dir].base + (uint32_t)ref[dir].k), idx);
                std::string why; if (!check_buffered(*f.flow, ref[dir], why, st)) return Verdict::bad(why.find("total_buffered") != std::string::npos ? "flow:accounting" : "flow:stale-buffered", why, idx);
                if (f.callbacks > cb0 && got.size() < before) return Verdict::bad("flow:callback-shrank", "data shrank across a callback", idx);
                }
                if (skipat >= 0 && idx >= skipat && !skipped[skipdir] && !(init_syn_d[skipdir] && !(fs[skipdir].flow->sequence_number() != (uint32_t)(0xdead0000u + skipdir)))) {
                    FlowSut& g = fs[skipdir]; uint32_t target = g.flow->sequence_number() + skipby; g.flow->advance_sequence(target); skipped[skipdir] = true; skip_seq[skipdir] = g.flow->sequence_number(); st.inc("fault.application_skips_hole");
                    if (g.flow->sequence_number() != target) return Verdict::bad("flow:sequence-number", fmt("advance_sequence(%u) left the delivery point at %u", target, g.flow->sequence_number()), idx);
                    uint64_t held = 0; for (auto& ch : g.flow->buffered_payload()) { held += ch.second.size(); if (seq_diff(ch.first, target) <= 0) return Verdict::bad("flow:stale-buffered", fmt("advance_sequence(%u) left a chunk at seq %u buffered", target, ch.first), idx); }
                    if (held != (uint64_t)g.flow->total_buffered_bytes()) return Verdict::bad("flow:accounting", fmt("right after advance_sequence: total_buffered_bytes()=%u but chunks hold %llu bytes", (unsigned)g.flow->total_buffered_bytes(), (unsigned long long)held), idx); }
            }
            // ---- (B)
            if (use_follower && !fol_dead) {
                Tins::Packet pkt(parse(frame), Tins::Timestamp(std::chrono::microseconds(t)), Tins::Packet::own_pdu());
                follower.process_packet(pkt);
                st.inc("chk.follower");
                // buffering-limit terminations are C07's subject: stop judging the follower copy in this run
                if (fol.terminated) { fol_dead = true; st.inc("probe.follower_limit_termination"); goto after_follower; }
                if (d.tcp.flags & TH_FIN) fin_seen[dir] = 1; if (d.tcp.flags & TH_RST) rst_seen = true;
                if (fol.announced != 1) return Verdict::bad("follower:announce-count", fmt("announced %d times", fol.announced), idx);
                for (int x = 0; x < 2; ++x) if (!bytes_eq(fol.got[x], c.data[x], ref[x].k) && !(ref[x].k > fol.got[x].size() && false))
                    return Verdict::bad("follower:delivery", fmt("dir %d: stream delivered %zu bytes, reference prefix is %zu", x, fol.got[x].size(), ref[x].k), idx);
                if (fol.live) {
                    std::string why;
                    if (!check_buffered(fol.live->client_flow(), ref[0], why, st) || !check_buffered(fol.live->server_flow(), ref[1], why, st)) return Verdict::bad("follower:buffered", why, idx);
                }
                bool should_be_closed = rst_seen || (fin_seen[0] && fin_seen[1]);
                if (should_be_closed != (fol.live == 0)) return Verdict::bad("follower:lifetime", fmt("closed expected=%d observed=%d", should_be_closed, fol.live == 0), idx);
                if (should_be_closed) fol_dead = true;
            }
            after_follower:
            // ---- (C) legacy: gate opens at the SYN-ACK, session ends at the first FIN or RST
            if (use_legacy && !leg.ended) {
                std::unique_ptr<Tins::PDU> pdu(parse(frame));
                std::vector<Tins::PDU*> one(1, pdu.get());
                bool was_gate = leg_gate;
                if ((d.tcp.flags & TH_SYN) && !(d.tcp.flags & TH_ACK)) leg_syn = true;
                if (leg_syn && (d.tcp.flags & TH_SYN) && (d.tcp.flags & TH_ACK)) leg_gate = true;
                bool ends = leg_gate && was_gate && (d.tcp.flags & (TH_FIN | TH_RST));
                size_t kk[2] = { ref[0].k, ref[1].k };
                legacy.follow_streams(one.begin(), one.end(),
                    [&leg](Tins::TCPStream& s) { leg.got[0] = s.client_payload(); leg.got[1] = s.server_payload(); leg.live = &s; return true; },
                    [&leg](Tins::TCPStream& s) { leg.got[0] = s.client_payload(); leg.got[1] = s.server_payload(); leg.ended = true; leg.live = 0; });
                st.inc("chk.legacy");
                if (leg_copied && leg_copy) {
                    std::unique_ptr<Tins::PDU> again(parse(frame)); Tins::IP* ip = again->find_pdu<Tins::IP>(); Tins::TCP* tcp = again->find_pdu<Tins::TCP>();
                    if (ip && tcp) {
                        leg_copy->update(ip, tcp); st.inc("chk.legacy_copy");
                        const Bytes* cp[2] = { &leg_copy->client_payload(), &leg_copy->server_payload() };
                        for (int x = 0; x < 2; ++x) if (!bytes_eq(*cp[x], c.data[x], kk[x])) return Verdict::bad("legacy:copy-diverges", fmt("dir %d: a copy of the stream taken at an earlier frame and fed the same frames since holds %zu bytes, reference prefix is %zu", x, cp[x]->size(), kk[x]), idx);
                    }
                }
                if (legcopy_at >= 0 && !leg_copied && leg.live && !leg.ended) {
                    if (legcopy_kind == 0) { if (idx >= legcopy_at) { leg_copy.reset(new Tins::TCPStream(*leg.live)); leg_copied = true; st.inc("probe.legacy_copy_constructed"); } }
                    else if (!leg_copy) { leg_copy.reset(new Tins::TCPStream(*leg.live)); }      // older snapshot, overwritten later by assignment
                    else if (idx >= legcopy_at) { *leg_copy = *leg.live; leg_copied = true; st.inc("probe.legacy_copy_assigned"); }
                }
                for (int x = 0; x < 2; ++x) if (!bytes_eq(leg.got[x], c.data[x], kk[x])) {
                    // the data callback only fires when bytes were added, so got[] may lag only if nothing was added: it must equal the prefix exactly
                    return Verdict::bad("legacy:delivery", fmt("dir %d: legacy follower delivered %zu bytes, reference prefix is %zu", x, leg.got[x].size(), kk[x]), idx);
                }
                if (ends != leg.ended) return Verdict::bad("legacy:lifetime", fmt("ended expected=%d observed=%d", ends, leg.ended), idx);
            }
            st.sim_us = t;
        }
        st.sched_sig = sig; st.nontrivial = any_fault && any_progress; tr.add(fmt("end k0=%zu k1=%zu", ref[0].k, ref[1].k));
        return Verdict();
    }

    // ============================================================================ mode ack (C19)
    Plan gen_ack(uint64_t seed, const std::string& tier) {
        Rng root(seed); Rng cfg = root.fork("cfg"), wl = root.fork("workload");
        Plan p; p.engine = "tcp"; p.mode = "ack"; p.seed = seed; p.cfg.set("property", "C19");
        ConnSpec c = basic_conn(cfg, wl, tier, true, 3000);
        if (c.data[1].empty() && cfg.chance(0.5)) { c.data[1] = wl.bytes((size_t)cfg.small(1, 2000)); c.isn[1] = pick_isn(cfg, c.data[1].size()); }
        c.sack = true; c.handshake = cfg.chance(0.5); c.close = cfg.chance(0.3) ? 1 : 0; { Rng sa = root.fork("sackasym"); c.sack_asym = sa.chance(0.3) ? (int)sa.range(1, 2) : 0; }
        // keep holes open: small mss relative to window, lossy data path
        for (int s = 0; s < 2; ++s) { c.mss[s] = (int)cfg.small(1, 200); if (c.data[s].size() / c.mss[s] > 300) c.mss[s] = (int)(c.data[s].size() / 300 + 1); c.wnd[s] = c.mss[s] * (int)cfg.range(3, 16); }
        World w; w.net_rng = root.fork("net");
        bool en_loss = !cfg.chance(0.2), en_jit = !cfg.chance(0.2);
        w.net.lat = 1000; w.net.loss = en_loss ? cfg.unit() * 0.4 : 0; w.net.dup = cfg.chance(0.5) ? cfg.unit() * 0.2 : 0;
        w.net.jit = en_jit ? (int64_t)cfg.small(0, 50000) : 0;
        // premise of the property: the ACK history the tracker sees never moves backwards -> the tap sees
        // each side's packets in emission order (FIFO), ACK packets may be lost (capture loss) or duplicated
        w.net.tap_fifo = true; w.net.tap_jit = 0; w.net.tap_loss = cfg.chance(0.7) ? cfg.unit() * 0.6 : 0; w.net.tap_dup = cfg.chance(0.3) ? cfg.unit() * 0.2 : 0;
        p.cfg.set("loss", fmt("%.3f", w.net.loss)).set("dup", fmt("%.3f", w.net.dup)).set("jit", w.net.jit).set("ackloss", fmt("%.3f", w.net.tap_loss));
        // the same tracker as the application usually meets it: embedded in a Flow (optionally one that was told to ignore data packets)
        // how SACK use is switched on: 0 = at construction, 1 = constructed without and enabled through use_sack() before the first packet,
        // 2 = enabled only after a third of the history (earlier blocks are then unknown to the tracker: the model starts recording there too), 3 = never
        { Rng sm = root.fork("sackmode"); p.cfg.set("sackmode", sm.chance(0.3) ? (int64_t)sm.range(1, 3) : 0); }
        { Rng fr = root.fork("flowtrk"); p.cfg.set("nblocks", c.tsopt ? 3 : 4).set("embedded", c.handshake && fr.chance(0.5) ? (int64_t)fr.range(1, 2) : 0); }
        ConnSim sim(w, c, root.fork("conn").next()); sim.start(); w.q.run(INT64_MAX, 400000);
        finish_tap(w, true);
        p.cfg.set("simus", w.q.now);
        p.truth.push_back(c.line());
        for (auto& r : w.tap) p.steps.push_back(step_line(r));
        for (auto& f : w.faults) p.cfg.set(f.first, (int64_t)f.second);
        p.cfg.setu("qseed", root.fork("queries").next());
        return p;
    }

    Verdict exec_ack(const Plan& p, RunStats& st, Trace& tr) {
        if (p.truth.empty()) return Verdict();
        ConnSpec c = ConnSpec::parse(p.truth[0]);
        for (auto& kv : p.cfg.v) if (kv.first.compare(0, 6, "fault.") == 0) st.ctr[kv.first] += strtoull(kv.second.c_str(), 0, 10);
        Rng qr(p.cfg.u64("qseed", 7));
        // tracker[d] follows the ACKs sent by side d, which acknowledge data[1-d] (base isn[1-d]+1)
        struct Model { uint32_t base; uint32_t A; std::vector<bool> S; bool started; } m[2];
        std::unique_ptr<Tins::TCPIP::AckTracker> trk[2];
        const size_t MARGIN = 64; const int sackmode = (int)p.cfg.num("sackmode", 0);
        for (int d = 0; d < 2; ++d) { m[d].base = c.isn[1 - d] + 1; m[d].A = m[d].base; m[d].S.assign(c.data[1 - d].size() + MARGIN, false); m[d].started = false; trk[d].reset(new Tins::TCPIP::AckTracker(m[d].base, sackmode == 0)); if (sackmode == 1) trk[d]->use_sack(); }
        bool sack_on = sackmode <= 1; const size_t sack_from = sackmode == 2 ? p.steps.size() / 3 : 0;
        uint64_t sig = 0xC19; bool saw_sack = false, edge = false; int idx = -1; int64_t last_t = 0;
        // embedded form: one Flow per direction with ACK tracking on, fed every frame its side sends (handshake included). Once the flow is
        // established - its side's SYN / SYN-ACK, then a plain ACK - the embedded tracker must agree with the stand-alone one.
        const int embedded = (int)p.cfg.num("embedded", 0); std::unique_ptr<Tins::TCPIP::Flow> efl[2]; int est[2] = { 0, 0 };   // 0 nothing seen, 1 SYN seen, 2 established, -1 never judged
        if (embedded) for (int d = 0; d < 2; ++d) {
            if (c.addr[0].is6()) efl[d].reset(new Tins::TCPIP::Flow(Tins::IPv6Address(c.addr[1 - d].b), c.port[1 - d], 0));
            else efl[d].reset(new Tins::TCPIP::Flow(Tins::IPv4Address(Tins::Endian::be_to_host(get32(c.addr[1 - d].b))), c.port[1 - d], 0));
            efl[d]->enable_ack_tracking(); if (embedded == 2) efl[d]->ignore_data_packets();
        }
        for (auto& sl : p.steps) {
            ++idx; KV k(sl); Bytes frame = k.bytes("f"); last_t = k.num("t");
            Decoded d = decode_eth(frame); if (!d.is_tcp) continue;
            int dir = (d.src == c.addr[0] && d.tcp.sport == c.port[0]) ? 0 : 1;
            if (embedded) {
                std::unique_ptr<Tins::PDU> fp(parse(frame)); efl[dir]->process_packet(*fp);
                const bool syn = d.tcp.flags & TH_SYN, finrst = d.tcp.flags & (TH_FIN | TH_RST);
                if (est[dir] == 0) est[dir] = (syn && !finrst && ((dir == 0) == !(d.tcp.flags & TH_ACK))) ? 1 : -1;
                else if (est[dir] == 1 && !syn) est[dir] = ((d.tcp.flags & TH_ACK) && !finrst) ? 2 : -1;
            }
            if (sackmode == 2 && !sack_on && (size_t)idx >= sack_from) { trk[0]->use_sack(); trk[1]->use_sack(); sack_on = true; st.inc("probe.sack_enabled_in_mid_history"); }
            if (!(d.tcp.flags & TH_ACK) || (d.tcp.flags & (TH_SYN | TH_RST))) continue;      // handshake packets do not belong to the ACK history
            Model& M = m[dir];
            // ---- model B4
            uint32_t oldA = M.A;
            if (seq_diff(d.tcp.ack, M.A) > 0) M.A = d.tcp.ack;
            size_t L = M.S.size();
            for (auto& b : d.sack) {
                int64_t lo = seq_diff(b.first, M.base), hi = seq_diff(b.second, M.base);
                if (seq_diff(b.first, d.tcp.ack) <= 0) return Verdict::bad("machinery:premise", "reference receiver emitted a SACK block not strictly above its ACK", idx);
                if (sack_on) for (int64_t i = std::max<int64_t>(lo, 0); i < hi && i < (int64_t)L; ++i) M.S[(size_t)i] = true;
                saw_sack = true;
            }
            int64_t aoff = seq_diff(M.A, M.base);
            // probes: where did the cumulative ACK land relative to formerly SACKed blocks
            if (M.A != oldA && aoff > 0 && aoff < (int64_t)L) {
                if (M.S[(size_t)aoff - 1] && !M.S[(size_t)aoff]) { st.inc("probe.ack_at_right_edge_of_sacked_block"); edge = true; }
                if (M.S[(size_t)aoff] ) { st.inc("probe.ack_inside_sacked_block"); edge = true; }
                if (!M.S[(size_t)aoff - 1] && aoff + 1 < (int64_t)L && M.S[(size_t)aoff + 1] && !M.S[(size_t)aoff]) { st.inc("probe.ack_just_below_left_edge"); edge = true; }
            }
            for (int64_t i = 0; i < aoff && i < (int64_t)L; ++i) M.S[(size_t)i] = false;
            if ((uint32_t)(M.base + (uint32_t)L) < M.base) st.inc("probe.history_crosses_2^32");
            sig = mix64(sig, ((uint64_t)d.tcp.ack << 8) ^ d.sack.size() ^ ((uint64_t)dir << 40) ^ (d.sack.empty() ? 0 : (uint64_t)d.sack[0].first << 3));
            // ---- SUT
            std::unique_ptr<Tins::PDU> pdu(parse(frame));
            trk[dir]->process_packet(*pdu);
            st.inc("chk.ack");
            tr.add(fmt("step %d dir=%d ack=%u nsack=%zu -> A=%u intervals=%zu", idx, dir, d.tcp.ack, d.sack.size(), trk[dir]->ack_number(), (size_t)trk[dir]->acked_intervals().iterative_size()));
            if (trk[dir]->ack_number() != M.A) return Verdict::bad("ack:ack-number", fmt("ack_number()=%u model=%u (base+%lld)", trk[dir]->ack_number(), M.A, (long long)aoff), idx);
            // interval set as a byte set modulo 2^32
            std::vector<bool> T(L, false);
            for (auto it = trk[dir]->acked_intervals().begin(); it != trk[dir]->acked_intervals().end(); ++it) {
                uint64_t lo = it->lower(), hi = it->upper();
                if (it->bounds() == boost::icl::interval_bounds::right_open() || it->bounds() == boost::icl::interval_bounds::open()) { if (hi == 0) continue; hi -= 1; }
                if (it->bounds() == boost::icl::interval_bounds::left_open() || it->bounds() == boost::icl::interval_bounds::open()) lo += 1;
                if (hi < lo) continue;
                if (hi - lo + 1 > L + 1) return Verdict::bad("ack:sacked-set", fmt("tracker holds an interval of %llu bytes, larger than anything acknowledged", (unsigned long long)(hi - lo + 1)), idx);
                for (uint64_t x = lo; x <= hi; ++x) { uint32_t off = (uint32_t)x - M.base; if (off >= L) return Verdict::bad("ack:sacked-set", fmt("tracker holds byte %llu outside anything the receiver SACKed", (unsigned long long)x), idx); T[off] = true; }
            }
            for (size_t i = 0; i < L; ++i) if (T[i] != M.S[i]) return Verdict::bad("ack:sacked-set", fmt("byte at stream offset %zu: tracker %s, model %s (A at offset %lld)", i, T[i] ? "SACKed" : "not SACKed", M.S[i] ? "SACKed" : "not SACKed", (long long)aoff), idx);
            if (embedded && est[dir] == 2 && sackmode == 0) {
                const Tins::TCPIP::AckTracker& et = efl[dir]->ack_tracker(); st.inc(embedded == 2 ? "chk.embedded_tracker_ignoring_flow" : "chk.embedded_tracker");
                if (et.ack_number() != trk[dir]->ack_number()) return Verdict::bad("ack:embedded-ack-number", fmt("tracker inside a Flow%s: ack_number()=%u, stand-alone tracker and model %u", embedded == 2 ? " that ignores data packets" : "", et.ack_number(), M.A), idx);
                if (!(et.acked_intervals() == trk[dir]->acked_intervals())) return Verdict::bad("ack:embedded-sacked-set", fmt("tracker inside a Flow%s holds %zu SACKed intervals, stand-alone tracker %zu (or different ones)", embedded == 2 ? " that ignores data packets" : "", (size_t)et.acked_intervals().iterative_size(), (size_t)trk[dir]->acked_intervals().iterative_size()), idx);
            }
            // abstract state: number of islands (cap 5), ack relative position class, wrap
            { int islands = 0; for (size_t i = 0; i < L; ++i) if (M.S[i] && (i == 0 || !M.S[i - 1])) ++islands; st.states.insert(mix64((uint64_t)std::min(islands, 5) * 4 + ((M.base + (uint32_t)aoff) < M.base ? 1 : 0) * 2 + (d.sack.empty() ? 0 : 1), 0xC19)); }
            // ---- queries, edge biased
            std::vector<int64_t> edges; edges.push_back(aoff - 1); edges.push_back(aoff); edges.push_back(aoff + 1); edges.push_back(0); edges.push_back((int64_t)L - (int64_t)MARGIN);
            for (size_t i = 0; i + 1 < L; ++i) if (M.S[i] != M.S[i + 1]) { edges.push_back((int64_t)i); edges.push_back((int64_t)i + 1); edges.push_back((int64_t)i + 2); if (edges.size() > 40) break; }
            int64_t wrap_off = (int64_t)(uint32_t)(0u - M.base); if (wrap_off < (int64_t)L + 50) { edges.push_back(wrap_off); edges.push_back(wrap_off - 1); edges.push_back(wrap_off + 1); }
            for (int q = 0; q < 20; ++q) {
                int64_t s = qr.chance(0.8) ? edges[qr.below(edges.size())] + (int64_t)qr.range(-1, 1) : (int64_t)qr.range(-50, (int64_t)L + 20);
                int64_t e = qr.chance(0.6) ? edges[qr.below(edges.size())] + (int64_t)qr.range(-1, 1) : s + (int64_t)qr.small(0, 300);
                if (e < s) std::swap(s, e);
                uint32_t len = (uint32_t)(e - s); if (qr.chance(0.1)) len = 0; if (qr.chance(0.1)) len = 1;
                if (s < -1000) s = -1000;
                bool expect = true;
                for (int64_t x = s; x < s + (int64_t)len; ++x) { if (x < aoff) continue; if (x >= (int64_t)L || !M.S[(size_t)x]) { expect = false; break; } }
                uint32_t qs = M.base + (uint32_t)s;
                bool got = trk[dir]->is_segment_acked(qs, len);
                st.inc("chk.query");
                if ((uint32_t)(qs + len) < qs && len) st.inc("probe.query_straddles_2^32");
                if (got != expect) return Verdict::bad("ack:is-segment-acked", fmt("is_segment_acked(base%+lld, %u) = %d, model %d (A at offset %lld)", (long long)s, len, got, expect, (long long)aoff), idx);
            }
        }
        st.sim_us = last_t; st.sched_sig = sig;
        st.nontrivial = saw_sack && (edge || p.cfg.num("fault.capture_loss") > 0 || p.cfg.num("fault.dup") > 0 || p.cfg.num("fault.tap_dup") > 0);
        return Verdict();
    }

    // ============================================================================ mode follower (C07) -- see tcp_follower.inc
    Plan gen_follower(uint64_t seed, const std::string& tier);
    Verdict exec_follower(const Plan& p, RunStats& st, Trace& tr);

    std::string signature(const Plan& p, const Verdict& v);
};

#include "tcp_follower.inc"

int main(int argc, char** argv) { TcpEngine e; return engine_main(e, argc, argv); }
