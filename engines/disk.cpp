// Engine `disk`: C17 - capture files and the capture loop.
// Real code: PacketWriter (all write overloads), libpcap savefile writer/reader (pcap_dump*, pcap_fopen_offline,
// pcap_open_offline, pcap_loop, pcap_offline_filter), FileSniffer (name / FILE* / filter / SnifferConfiguration),
// BaseSniffer::next_packet, sniff_loop, begin()/end() iteration, set_filter, OfflinePacketFilter, Packet/Timestamp,
// every parser the capture handlers dispatch to.
// Stubs: the file layer - fopen() is defined in this executable, paths under /simdisk/ are served by fopencookie
// streams backed by an in-memory disk with crash / torn write / ENOSPC / EIO / short read / truncation / bit-flip
// faults; the wall clock for PacketWriter::write(PDU&).
#include "kernel.hpp"
#include "codec.hpp"
#include "gen.hpp"
#include "simclock.hpp"
#include <tins/tins.h>
#include <tins/pktap.h>
#include <tins/loopback.h>
#include <tins/offline_packet_filter.h>
#include <tins/detail/pdu_helpers.h>
#include <pcap.h>
#include <dlfcn.h>
#include <memory>

using namespace sim; using namespace codec;

extern "C" __attribute__((used)) const char* __asan_default_options() { return "exitcode=77:detect_leaks=0:abort_on_error=0:allocator_may_return_null=1"; }
extern "C" __attribute__((used)) const char* __ubsan_default_options() { return "print_stacktrace=1:halt_on_error=1"; }

#include "simdisk.hpp"

// direct construction of the link type's class, exactly what the capture handlers dispatch to
static Tins::PDU* construct(int dlt, const Bytes& f) {
    using namespace Tins; const uint8_t* p = f.data(); uint32_t n = (uint32_t)f.size(); static const uint8_t z = 0; if (!p) p = &z;
    switch (dlt) {
        case DLT_EN10MB: if (Internals::is_dot3(p, n)) return new Dot3(p, n); return new EthernetII(p, n);
        case DLT_NULL: return new Loopback(p, n);
        case DLT_LINUX_SLL: return new SLL(p, n);
        case DLT_PPI: return new PPI(p, n);
        case DLT_RAW: if (n == 0) return 0; if ((p[0] >> 4) == 4) return new IP(p, n); if ((p[0] >> 4) == 6) return new IPv6(p, n); return 0;
        case DLT_IEEE802_11_RADIO: return new RadioTap(p, n);
        case DLT_IEEE802_11: return Dot11::from_bytes(p, n);
        default: return 0;
    }
}

static const char* FILTERS[] = { "", "ip", "tcp", "udp", "tcp port 80", "udp port 53", "host 10.0.0.1", "ip6", "not ip", "vlan", "len > 100", "greater 200", "less 90", "ip and len > 60", "icmp or arp", "tcp or udp", "ether proto 0x888e", "not tcp and not udp", "len <= 60", "ip[8] > 64" };
static const int NFILTERS = sizeof(FILTERS) / sizeof(FILTERS[0]);

struct DiskEngine : Engine {
    const char* name() const { return "disk"; }
    std::string components_json() const {
        return "{\"real\":[\"PacketWriter\",\"libpcap 1.10 savefile writer and reader, BPF compiler and pcap_offline_filter\",\"FileSniffer/BaseSniffer: next_packet, sniff_loop, begin()/end(), set_filter, set_extract_raw_pdus, SnifferConfiguration\",\"OfflinePacketFilter\",\"Packet/Timestamp\",\"all parsers behind the capture handlers\",\"glibc stdio buffering\"],"
               "\"stub\":[\"fopen (defined in the harness) -> fopencookie streams on an in-memory disk with crash/torn write/ENOSPC/EIO/short read/truncation/bit flips\",\"gettimeofday (simulated clock)\",\"reference savefile writer/reader\",\"traffic generator sim/gen + fixtures\"]}";
    }
    std::string rule_text(const std::string&) const {
        return "one run = one capture file: link type x writer (PacketWriter with its three write overloads, or the reference savefile writer with arbitrary frame bytes: well-formed, corrupted, zero-length, caplen<len) x stdio buffer size x write-side faults (process crash after the k-th write with the buffered tail lost, ENOSPC/EIO at byte n with/without recovery) x read-side faults (short reads, EIO at byte n, truncation at n, flipped bytes in headers/bodies) x 1-3 read passes (next_packet / sniff_loop with stop, max_packets, throwing functor / range iteration; by name or FILE*; raw or parsed; BPF filter from a small grammar, also through OfflinePacketFilter). Oracle: reference reader over the durable bytes -> frames_out = [f | parses(f) and filter(f)] in order with identical bytes and microsecond timestamps; after crash/truncation/EIO exactly the wholly durable records; after header damage safety plus the undamaged prefix. distinct = signature of (link type, writer, fault vector, read modes, record count class); non-trivial = at least one fault fired or a frame was skipped/filtered, and at least one frame was compared";
    }

    Plan generate(uint64_t seed, const std::string&, const std::string& tier) {
        Rng root(seed); Rng cfg = root.fork("cfg"), wl = root.fork("workload"), ft = root.fork("faults");
        Plan p; p.engine = "disk"; p.mode = "disk"; p.seed = seed; p.cfg.set("property", "C17");
        const int dlts_pw[6] = { DLT_EN10MB, DLT_IEEE802_11, DLT_IEEE802_11_RADIO, DLT_NULL, DLT_LINUX_SLL, DLT_RAW };
        const int dlts_ref[7] = { DLT_EN10MB, DLT_IEEE802_11, DLT_IEEE802_11_RADIO, DLT_NULL, DLT_LINUX_SLL, DLT_RAW, DLT_PPI };
        bool pw = cfg.chance(0.55); int dlt = pw ? dlts_pw[cfg.below(6)] : dlts_ref[cfg.below(7)];
        const int bufs[6] = { -1, -1, 0, 64, 512, 4096 };
        size_t nframes = (size_t)cfg.small(0, tier == "thorough" ? (cfg.chance(0.05) ? 1000 : 120) : 30);
        p.cfg.set("dlt", dlt).set("writer", pw ? "pw" : "ref").set("bufsz", bufs[cfg.below(6)]).set("wkind", (int64_t)cfg.below(5)).setu("shortseed", root.fork("short").next());
        int64_t clock = 1500000000LL * 1000000 + (int64_t)cfg.below(1000000000000LL);
        bool arbitrary = !pw && cfg.chance(0.6);
        for (size_t i = 0; i < nframes; ++i) {
            gen::Frame f = gen::frame_for(wl, dlt); KV k; std::string note = f.desc;
            uint32_t sec = (uint32_t)cfg.range(0, 0x7fffffff), usec = (uint32_t)cfg.range(0, 999999); if (cfg.chance(0.2)) usec = cfg.chance(0.5) ? 0 : 999999; if (cfg.chance(0.5)) { sec = (uint32_t)(clock / 1000000); usec = (uint32_t)(clock % 1000000); clock += (int64_t)cfg.range(-2000000, 50000000); if (clock < 0) clock = 0; }
            size_t len = f.bytes.size();
            if (arbitrary) { int a = (int)cfg.below(10); if (a < 4) note += "|" + gen::corrupt(wl, f.bytes); else if (a == 4) { f.bytes.clear(); note = "zero-length"; } else if (a == 5) { f.bytes = wl.bytes((size_t)cfg.small(1, 200)); note = "random-bytes"; } len = f.bytes.size(); if (cfg.chance(0.15)) { len += (size_t)cfg.range(1, 2000); note += "|caplen<len"; } }
            for (char& c : note) if (c == ' ') c = '_';
            k.set("sec", sec).set("us", usec).set("len", (int64_t)len).set("n", note).set("f", f.bytes); p.steps.push_back("w " + k.line());
        }
        // write-side faults, attached to the position where they hit
        int wf = (int)cfg.below(10);
        if (wf == 0 && !p.steps.empty()) { size_t at = ft.below(p.steps.size() + 1); p.steps.insert(p.steps.begin() + at, "crash"); }
        else if (wf == 1) { KV k; k.set("at", (int64_t)ft.small(0, 24 + 100 * (int64_t)nframes)).set("err", ft.chance(0.5) ? ENOSPC : EIO).set("recover", ft.chance(0.4) ? 1 : 0).set("calls", (int64_t)ft.range(0, 3)); p.steps.insert(p.steps.begin(), "wfail " + k.line()); }
        // read-side faults
        int rf = (int)cfg.below(10);
        if (rf == 0) { KV k; k.set("kind", "short").set("max", (int64_t)ft.range(1, 40)); p.steps.push_back("rfault " + k.line()); }
        else if (rf == 1) { KV k; k.set("kind", "eio").set("at", (int64_t)ft.small(0, 24 + 120 * (int64_t)nframes)); p.steps.push_back("rfault " + k.line()); }
        else if (rf == 2) { KV k; k.set("kind", "trunc").set("at", (int64_t)ft.small(0, 24 + 120 * (int64_t)nframes)); p.steps.push_back("rfault " + k.line()); }
        else if (rf == 3) { int n = (int)ft.range(1, 3); for (int i = 0; i < n; ++i) { KV k; k.set("kind", "flip").setu("pos", ft.next()).set("where", (int64_t)ft.below(3)).set("xor", (int64_t)(1u << ft.below(8))); p.steps.push_back("rfault " + k.line()); } }
        if (rf == 0 && cfg.chance(0.5)) { KV k; k.set("kind", "short").set("max", 1); p.steps.push_back("rfault " + k.line()); }
        // read passes
        int nread = (int)cfg.range(1, 3);
        for (int i = 0; i < nread; ++i) {
            KV k; k.set("how", (int64_t)cfg.below(3)).set("open", cfg.chance(0.5) ? "fp" : "name").set("raw", cfg.chance(0.4) ? 1 : 0).set("filter", cfg.chance(0.45) ? (int64_t)cfg.below(NFILTERS) : 0)
             .set("fvia", (int64_t)cfg.below(3)).set("maxpk", cfg.chance(0.2) ? (int64_t)cfg.range(1, 10) : 0).set("stopat", cfg.chance(0.15) ? (int64_t)cfg.range(1, 10) : 0).set("stopvia", (int64_t)root.fork("stopvia").below(2)).set("method", (int64_t)root.fork("method").below(4)).set("snaplen", (int64_t)root.fork("snaplen").below(5)).set("throwat", cfg.chance(0.2) ? (int64_t)cfg.range(1, 8) : 0).set("throwkind", (int64_t)cfg.below(2)).set("cont", cfg.chance(0.5) ? 1 : 0);
            { Rng cf = root.fork(fmt("clrat%d", i).c_str()); k.set("clrat", cf.chance(0.25) ? (int64_t)cf.range(1, 6) : 0); }   // the application clears the filter (set_filter("")) after that many frames (next_packet passes with a filter)
            { Rng tg = root.fork(fmt("togat%d", i).c_str()); k.set("togat", tg.chance(0.2) ? (int64_t)tg.range(1, 6) : 0); }   // the application switches set_extract_raw_pdus() over after that many frames (next_packet passes)
            p.steps.push_back("read " + k.line());
        }
        return p;
    }

    struct Got { uint32_t sec, usec; Bytes bytes; int type; uint32_t size; bool israw; };

    Verdict execute(const Plan& p, RunStats& st, Trace& tr) {
        using namespace Tins;
        const int dlt = (int)p.cfg.num("dlt"); const bool pw = p.cfg.str("writer") == "pw"; const int wkind = (int)p.cfg.num("wkind");
        simdisk::files.clear(); simdisk::fired.clear(); simdisk::bufsz = (int)p.cfg.num("bufsz", -1); simdisk::read_view = 0;
        struct Guard { ~Guard() { sim::g_sim_now_us = -1; simdisk::read_view = 0; } } guard;
        const std::string path = "/simdisk/capture.pcap"; simdisk::File& file = simdisk::files[path]; file.short_seed = p.cfg.u64("shortseed", 1);
        uint64_t sig = mix64(0xC17, (uint64_t)dlt * 2 + (pw ? 1 : 0)); bool any_fault = false, compared = false;
        // ---------------------------------------------------------------- write phase
        for (auto& l : p.steps) if (l.compare(0, 6, "wfail ") == 0) { KV k(l.substr(6)); file.wfail_at = k.num("at"); file.wfail_errno = (int)k.num("err"); file.wfail_recover = k.num("recover"); file.wfail_calls_left = (int)k.num("calls"); any_fault = true; sig = mix64(sig, 0x77 + (uint64_t)k.num("recover")); }
        struct Written { uint32_t sec, usec; Bytes bytes; uint32_t len; }; std::vector<Written> written; bool crashed = false; size_t nw = 0;
        PacketWriter* writer = 0; Bytes refbytes;
        if (pw) { try { writer = new PacketWriter(path, (PacketWriter::LinkType)dlt); } catch (pcap_error&) { st.inc("probe.writer_open_failed"); } }
        else refbytes = ref_global_header(gen::linktype_of(dlt));
        for (auto& l : p.steps) {
            if (l == "crash") { crashed = true; file.crashed = true; any_fault = true; st.inc("fault.crash"); sig = mix64(sig, 0xdead + nw); tr.add(fmt("crash after %zu writes, %zu bytes durable", nw, file.data.size())); continue; }
            if (l.compare(0, 2, "w ") != 0 || crashed) continue;
            KV k(l.substr(2)); Bytes f = k.bytes("f"); uint32_t sec = (uint32_t)k.num("sec"), usec = (uint32_t)k.num("us");
            if (pw) {
                if (!writer) continue;
                std::unique_ptr<PDU> pdu; try { pdu.reset(construct(dlt, f)); } catch (malformed_packet&) {}
                if (!pdu) { st.inc("probe.generated_frame_does_not_parse"); continue; }
                // a parsed packet whose serialize() throws cannot be written at all (C02's subject): skipped, counted
                std::unique_ptr<PDU> cl(pdu->clone()); PDU::serialization_type ser; try { ser = cl->serialize(); } catch (std::exception&) { st.inc("probe.parsed_frame_not_serializable"); continue; }
                Written w; w.sec = sec; w.usec = usec; w.bytes.assign(ser.begin(), ser.end()); w.len = (uint32_t)w.bytes.size();
                if (wkind == 0) { Packet pk(pdu.release(), Timestamp(std::chrono::microseconds((int64_t)sec * 1000000 + usec)), Packet::own_pdu()); writer->write(pk); }
                else if (wkind == 4) {   // a Packet stamped by the (simulated) clock at construction, written later
                    sim::g_sim_now_us = (int64_t)sec * 1000000 + usec; sim::g_sim_tick_us = 0; Packet pk(*pdu); sim::g_sim_now_us = -1; st.inc("probe.clock_stamped_packet");
                    if ((uint64_t)pk.timestamp().seconds() != sec || (uint64_t)pk.timestamp().microseconds() != usec) return Verdict::bad("disk:packet-clock-stamp", fmt("Packet(pdu) built at %u.%06u carries timestamp %llu.%06llu", (unsigned)sec, (unsigned)usec, (unsigned long long)pk.timestamp().seconds(), (unsigned long long)pk.timestamp().microseconds()));
                    writer->write(pk); }
                else {   // the clock-stamped overloads: write(PDU&), write(T&) through a pointer, write(range)
                    sim::g_sim_now_us = (int64_t)sec * 1000000 + usec; sim::g_sim_tick_us = 0;
                    if (wkind == 1) writer->write(*pdu); else if (wkind == 2) { PDU* raw = pdu.get(); writer->write(raw); } else { std::vector<PDU*> one(1, pdu.get()); writer->write(one.begin(), one.end()); }
                    sim::g_sim_now_us = -1; }
                written.push_back(w);
            } else {
                Written w; w.sec = sec; w.usec = usec; w.bytes = f; w.len = (uint32_t)k.num("len"); ref_append(refbytes, sec, usec, w.len, f); written.push_back(w);
            }
            ++nw;
        }
        if (pw) { if (!crashed) delete writer; /* a crashed process never runs the destructor: the writer and its stdio buffer are abandoned */ }
        else {   // the reference writer pushes its bytes through the same faulty disk, in chunks like a buffered writer
            FILE* fp = fopen(path.c_str(), "wb"); if (fp) { size_t off = 0; while (off < refbytes.size()) { size_t n = std::min<size_t>(refbytes.size() - off, 4096); if (fwrite(refbytes.data() + off, 1, n, fp) != n) break; off += n; } fclose(fp); }
        }
        for (auto& fk : simdisk::fired) { st.inc(fk.first, fk.second); any_fault = true; } simdisk::fired.clear();
        if (file.torn) st.inc("probe.torn_write", file.torn);
        const Bytes durable = file.data; bool structure_damaged = false; size_t first_damage = SIZE_MAX;
        tr.add(fmt("written=%zu durable=%zu bytes", written.size(), durable.size()));
        // a write error followed by recovery leaves a hole: later records are misaligned -> structure damaged from the hole on
        if (file.wfail_recover && file.torn) { structure_damaged = true; }
        // ---------------------------------------------------------------- read-side faults on a view of the durable bytes
        Bytes view = durable; file.reio_at = -1; file.short_max = 0;
        std::vector<Rec> base_recs; ref_read(durable, base_recs, 0);
        for (auto& l : p.steps) if (l.compare(0, 7, "rfault ") == 0) {
            KV k(l.substr(7)); std::string kind = k.str("kind"); any_fault = true; sig = mix64(sig, fnv1a(kind));
            if (kind == "short") file.short_max = (int)k.num("max");
            else if (kind == "eio") { file.reio_at = k.num("at"); st.inc("fault.read_eio_armed"); }
            else if (kind == "trunc") { size_t at = (size_t)k.num("at"); if (at < view.size()) { view.resize(at); st.inc("fault.truncated_file"); } }
            else if (kind == "flip" && !view.empty()) {
                size_t pos; int where = (int)k.num("where"); uint64_t rp = k.u64("pos");
                if (where == 0 || base_recs.empty()) pos = rp % std::min<size_t>(view.size(), 24);                              // global header
                else { const Rec& r = base_recs[rp % base_recs.size()]; if (where == 1) pos = r.hdr_off + (rp >> 20) % 16; else pos = r.caplen ? r.hdr_off + 16 + (rp >> 20) % r.caplen : r.hdr_off + 8; }
                if (pos < view.size()) {
                    view[pos] ^= (uint8_t)k.num("xor"); st.inc("fault.flipped_byte");
                    bool in_body = false; for (auto& r : base_recs) if (pos >= r.hdr_off + 16 && pos < r.hdr_off + 16 + r.caplen) in_body = true;
                    // timestamps are header fields the format does not interpret: a flip there changes the expected timestamp only
                    bool in_ts = false; for (auto& r : base_recs) if (pos >= r.hdr_off && pos < r.hdr_off + 8) { in_ts = true; if (r.hdr_off + 8 <= view.size() && ((rd32(view, r.hdr_off) | rd32(view, r.hdr_off + 4)) & 0x80000000u)) in_ts = false; /* outside the format's signed 32-bit range: treat as header damage */ }
                    if (!in_body && !in_ts) { structure_damaged = true; first_damage = std::min(first_damage, pos); st.inc("probe.header_damage"); } else st.inc("probe.body_or_timestamp_flip");
                }
            }
        }
        if (file.wfail_recover && file.torn) first_damage = 0;      // conservative: judge safety only
        // what a reader may see: the view cut at the EIO position
        Bytes visible = view; if (file.reio_at >= 0 && (size_t)file.reio_at < visible.size()) visible.resize((size_t)file.reio_at);
        std::vector<Rec> recs; uint32_t lt = 0; bool header_ok = ref_read(visible, recs, &lt);
        if (crashed && !recs.empty() && recs.size() < written.size()) st.inc("probe.crash_lost_buffered_tail");
        if (crashed && durable.size() > 24) { std::vector<Rec> all; ref_read(durable, all, 0); size_t used = 24; for (auto& r : all) used += 16 + r.caplen; if (used < durable.size()) st.inc("probe.torn_record_at_crash"); }
        // durability cross-check of the write path in fault-free runs: everything written is on disk, byte for byte
        if (!structure_damaged && !crashed && file.wfail_at < 0 && !file.torn && p.steps.end() == std::find_if(p.steps.begin(), p.steps.end(), [](const std::string& s) { return s.compare(0, 6, "wfail ") == 0; })) {
            std::vector<Rec> all; uint32_t l2 = 0; if (!ref_read(durable, all, &l2) || all.size() != written.size()) return Verdict::bad("disk:write-lost-or-extra-records", fmt("%zu records written, %zu on disk", written.size(), all.size()));
            if (l2 != gen::linktype_of(dlt)) return Verdict::bad("disk:wrong-linktype", fmt("file says link type %u, expected %u", l2, gen::linktype_of(dlt)));
            for (size_t i = 0; i < all.size(); ++i) { st.inc("chk.record_on_disk");
                if (all[i].data != written[i].bytes) return Verdict::bad("disk:stored-bytes-differ", fmt("record %zu: stored bytes differ from the serialization handed to the writer", i));
                if (all[i].sec != written[i].sec || all[i].usec != written[i].usec) return Verdict::bad("disk:stored-timestamp-differs", fmt("record %zu: stored %u.%06u, written %u.%06u", i, all[i].sec, all[i].usec, written[i].sec, written[i].usec));
                if (pw && all[i].caplen != all[i].data.size()) return Verdict::bad("disk:caplen", "caplen differs from the stored bytes"); }
        }
        // ---------------------------------------------------------------- read passes
        int pass = -1;
        for (auto& l : p.steps) {
            if (l.compare(0, 5, "read ") != 0) continue; ++pass;
            KV k(l.substr(5)); int how = (int)k.num("how"); bool byname = k.str("open") == "name", raw = k.num("raw"); int fidx = (int)k.num("filter"); if (fidx < 0 || fidx >= NFILTERS) fidx = 0; int fvia = (int)k.num("fvia");
            uint32_t maxpk = (uint32_t)k.num("maxpk"); int stopat = (int)k.num("stopat"), throwat = (int)k.num("throwat"), throwkind = (int)k.num("throwkind");
            const size_t togat = how == 0 ? (size_t)k.num("togat", 0) : 0; bool cur_raw = raw;
            std::string filt = FILTERS[fidx]; sig = mix64(sig, (uint64_t)how * 64 + (byname ? 32 : 0) + (raw ? 16 : 0) + (uint64_t)fidx * 1000 + fvia);
            // expected: records of the visible bytes that parse and match
            // "libpcap says match" for a savefile is decided by a program compiled against a savefile handle of the same bytes
            // (libpcap compiles some primitives differently for savefiles, e.g. BSD address-family values on DLT_NULL)
            bpf_program prog; bool have_prog = false; pcap_t* dead = 0;
            if (!filt.empty()) { char eb[PCAP_ERRBUF_SIZE]; int sm = file.short_max; int64_t re = file.reio_at; file.short_max = 0; file.reio_at = -1; FILE* fp2 = simdisk::open(path, "rb", &view); dead = fp2 ? pcap_fopen_offline(fp2, eb) : 0; file.short_max = sm; file.reio_at = re;
                                 if (dead && pcap_compile(dead, &prog, filt.c_str(), 1, PCAP_NETMASK_UNKNOWN) == 0) have_prog = true; simdisk::fired.clear(); }
            bool filter_usable = filt.empty() || have_prog;
            const size_t clrat = (how == 0 && have_prog && first_damage >= 24) ? (size_t)k.num("clrat", 0) : 0; bool filt_on = have_prog;
            std::vector<Got> expect; size_t skipped_unparsed = 0, skipped_filter = 0; bool mode_raw = raw;
            if (header_ok) for (auto& r : recs) {
                if (filt_on) { pcap_pkthdr h; memset(&h, 0, sizeof h); h.caplen = r.caplen; h.len = r.len; static const uint8_t z = 0; if (!pcap_offline_filter(&prog, &h, r.data.empty() ? &z : r.data.data())) { ++skipped_filter; continue; } }
                Got g; g.sec = r.sec; g.usec = r.usec; g.bytes = r.data; g.type = -1; g.size = 0; g.israw = mode_raw;
                if (!mode_raw) { std::unique_ptr<PDU> pdu; try { pdu.reset(construct(dlt, r.data)); } catch (malformed_packet&) {} if (!pdu) { ++skipped_unparsed; continue; } g.type = (int)pdu->pdu_type(); g.size = pdu->size(); }
                expect.push_back(g); if (togat && expect.size() == togat) mode_raw = !mode_raw; if (clrat && expect.size() == clrat) filt_on = false;
            }
            if (skipped_unparsed) st.inc("probe.malformed_frame_skipped", skipped_unparsed); if (skipped_filter) st.inc("probe.frame_filtered_out", skipped_filter);
            // ---- SUT
            std::vector<Got> got; std::string exc; bool opened = false; int loop_calls = 0; bool continued = false;
            try {
                std::unique_ptr<FileSniffer> sn;
                simdisk::read_view = &view;
                SnifferConfiguration conf; bool filter_in_ctor = false;
                // frames are pulled with pcap_loop (default, or set explicitly) or pcap_dispatch, chosen through the configuration or on the sniffer
                const int method = (int)k.num("method", 0); if (method == 1) conf.set_pcap_sniffing_method(pcap_dispatch); else if (method == 2) conf.set_pcap_sniffing_method(pcap_loop);
                if (!filt.empty() && filter_usable && fvia == 0) { conf.set_filter(filt); filter_in_ctor = true; }
                if (byname) { if (!filt.empty() && filter_usable && fvia == 1) { sn.reset(new FileSniffer(path, filt)); filter_in_ctor = true; } else sn.reset(new FileSniffer(path, conf)); }
                else { FILE* fp = simdisk::open(path, "rb", &view); if (!filt.empty() && filter_usable && fvia == 1) { sn.reset(new FileSniffer(fp, filt)); filter_in_ctor = true; } else sn.reset(new FileSniffer(fp, conf)); }
                simdisk::read_view = 0; opened = true;
                if (!filt.empty() && filter_usable && !filter_in_ctor) { if (!sn->set_filter(filt)) { if (first_damage < 24) { st.inc("probe.filter_rejected_on_damaged_header"); filter_usable = false; } else return Verdict::bad("disk:set-filter-failed", "set_filter rejected an expression libpcap compiles: " + filt); } }
                sn->set_extract_raw_pdus(raw); if (method == 3) sn->set_pcap_sniffing_method(pcap_dispatch); if (method == 1 || method == 3) st.inc("probe.pcap_dispatch_method");
                if (header_ok && first_damage >= 24) { st.inc("chk.link_type"); if (sn->link_type() != dlt) return Verdict::bad("disk:link-type", fmt("link_type()=%d for a file written with link type %d", sn->link_type(), dlt)); }
                auto take = [&](PDU& pdu, const Timestamp& ts) { Got g; g.israw = cur_raw; g.sec = (uint32_t)ts.seconds(); g.usec = (uint32_t)ts.microseconds(); g.type = (int)pdu.pdu_type(); g.size = pdu.size(); if (cur_raw) { RawPDU* r = pdu.find_pdu<RawPDU>(); if (r) g.bytes.assign(r->payload().begin(), r->payload().end()); } got.push_back(g); };
                if (how == 0) { for (;;) { Packet pk(sn->next_packet()); if (!pk.pdu()) break; take(*pk.pdu(), pk.timestamp()); if (got.size() > recs.size() + 5) break;
                        if (clrat && got.size() == clrat) { st.inc("fault.filter_cleared_in_mid_capture"); if (!sn->set_filter("")) return Verdict::bad("disk:set-filter-failed", "set_filter(\"\") rejected on an open capture"); }
                        if (togat && got.size() == togat) { cur_raw = !cur_raw; sn->set_extract_raw_pdus(cur_raw); st.inc("fault.extract_mode_switched_in_mid_capture"); } } }
                else if (how == 1) {
                    // stopping from inside the handler either by returning false or through stop_sniff() (pcap_breakloop): the loop ends after this
                    // packet and the sniffer can be read on (not combined with a max_packets that ends the loop first: the break would stay pending)
                    const bool stop_via_breakloop = k.num("stopvia", 0) && stopat && !(maxpk && maxpk <= (uint32_t)stopat) && !(throwat && throwat <= stopat);
                    sn->sniff_loop([&](Packet& pk) -> bool { ++loop_calls; take(*pk.pdu(), pk.timestamp());
                        if (throwat && loop_calls == throwat) { if (throwkind) throw malformed_packet(); else throw pdu_not_found(); }
                        if (stopat && loop_calls == stopat) { if (stop_via_breakloop) { sn->stop_sniff(); st.inc("probe.stop_sniff_called"); return true; } return false; } return true; }, maxpk);
                    // the documentation promises that the same sniffer continues where the loop stopped: read the rest
                    if (k.num("cont") && (maxpk || stopat)) { continued = true; for (;;) { Packet pk(sn->next_packet()); if (!pk.pdu()) break; take(*pk.pdu(), pk.timestamp()); if (got.size() > recs.size() + 5) break; } }
                }
                else { for (auto it = sn->begin(); it != sn->end(); ++it) { take(*it->pdu(), it->timestamp()); if (got.size() > recs.size() + 5) break; } }
            }
            catch (pcap_error& e) { exc = std::string("pcap_error:") + e.what(); }
            catch (invalid_pcap_filter& e) { exc = std::string("invalid_pcap_filter:") + e.what(); }
            catch (unknown_link_type& e) { if (first_damage >= 24) { simdisk::read_view = 0; if (have_prog) pcap_freecode(&prog); if (dead) pcap_close(dead); return Verdict::bad("disk:exception-escaped:Tins::unknown_link_type", "link type of an undamaged header not recognised"); } exc = "unknown_link_type"; st.inc("probe.unknown_link_type_after_header_damage"); }
            catch (std::exception& e) { simdisk::read_view = 0; if (have_prog) pcap_freecode(&prog); if (dead) pcap_close(dead); return Verdict::bad("disk:exception-escaped:" + demangle(typeid(e).name()), fmt("pass %d (%s): %s", pass, how == 0 ? "next_packet" : how == 1 ? "sniff_loop" : "iteration", e.what())); }
            simdisk::read_view = 0; if (have_prog) pcap_freecode(&prog); if (dead) pcap_close(dead);
            for (auto& fk : simdisk::fired) { st.inc(fk.first, fk.second); } simdisk::fired.clear();
            st.inc("chk.read_pass");
            tr.add(fmt("pass %d how=%d open=%s raw=%d filter='%s' expect=%zu got=%zu exc=%s", pass, how, byname ? "name" : "fp", raw, filt.c_str(), expect.size(), got.size(), exc.c_str()));
            if (!opened) {
                // documented open-time errors only; a file whose 24-byte header is intact and undamaged must open
                if (header_ok && !structure_damaged && filter_usable && exc.compare(0, 10, "pcap_error") == 0) return Verdict::bad("disk:open-failed", "a capture with an intact global header could not be opened: " + exc);
                st.inc("probe.open_time_error"); continue;
            }
            // expected list under the read mode
            std::vector<Got> want = expect;
            if (how == 1 && continued) { st.inc("probe.read_continued_after_bounded_loop"); }
            else if (how == 1) { size_t cut = want.size(); if (maxpk && maxpk < cut) cut = maxpk; if (stopat && stopat == throwat) stopat = 0; /* the functor throws before it can return false */ if (stopat && (size_t)stopat < cut) cut = (size_t)stopat; want.resize(cut); if (throwat && (size_t)throwat <= cut) st.inc("probe.functor_threw_in_sniff_loop"); if (stopat && (size_t)stopat == cut) st.inc("probe.functor_stopped_loop"); if (maxpk && maxpk == cut) st.inc("probe.max_packets_reached"); }
            if (structure_damaged) {
                // safety only + records wholly before the first damaged byte come back unchanged
                size_t safe = 0; for (auto& r : recs) { if (first_damage != SIZE_MAX && r.hdr_off + 16 + r.caplen <= first_damage) ++safe; else break; }
                if (first_damage < 24) safe = 0;
                // map to expected entries: the first `safe` records, filtered
                size_t want_n = 0, ri = 0; for (auto& r : recs) { if (ri++ >= safe) break; for (auto& w : want) if (w.sec == r.sec && w.usec == r.usec && w.bytes == r.data) { ++want_n; break; } }
                (void)want_n;   // prefix check below uses positions
                size_t prefix = 0; { size_t ri2 = 0, wi = 0; for (auto& r : recs) { if (ri2++ >= safe) break; if (wi < want.size() && want[wi].sec == r.sec && want[wi].usec == r.usec && want[wi].bytes == r.data) ++wi; } prefix = wi; }
                if (how == 1 && (maxpk || stopat)) prefix = std::min(prefix, want.size());
                for (size_t i = 0; i < prefix && i < got.size(); ++i) { st.inc("chk.frame"); compared = true; if ((uint64_t)got[i].sec * 1000000 + got[i].usec != (uint64_t)want[i].sec * 1000000 + want[i].usec || (want[i].israw && got[i].bytes != want[i].bytes)) return Verdict::bad("disk:undamaged-prefix-changed", fmt("pass %d: record %zu before the damaged header came back changed", pass, i)); }
                if (got.size() < prefix) return Verdict::bad("disk:undamaged-prefix-lost", fmt("pass %d: %zu records precede the damaged header, only %zu came back", pass, prefix, got.size()));
                st.inc("probe.safety_only_pass"); continue;
            }
            if (got.size() != want.size()) return Verdict::bad(got.size() < want.size() ? "disk:frames-missing" : "disk:frames-extra", fmt("pass %d (%s, %s, raw=%d, filter '%s'): %zu frames came back, reference expects %zu of %zu records", pass, how == 0 ? "next_packet" : how == 1 ? "sniff_loop" : "iteration", byname ? "by name" : "FILE*", raw, filt.c_str(), got.size(), want.size(), recs.size()));
            for (size_t i = 0; i < want.size(); ++i) {
                st.inc("chk.frame"); compared = true;
                if ((uint64_t)got[i].sec * 1000000 + got[i].usec != (uint64_t)want[i].sec * 1000000 + want[i].usec) return Verdict::bad("disk:timestamp", fmt("pass %d frame %zu: %u.%06u read, %u.%06u stored", pass, i, got[i].sec, got[i].usec, want[i].sec, want[i].usec));
                if (want[i].israw && got[i].bytes != want[i].bytes) return Verdict::bad("disk:bytes", fmt("pass %d frame %zu: bytes differ from the stored record (%zu vs %zu)", pass, i, got[i].bytes.size(), want[i].bytes.size()));
                if (want[i].israw && got[i].type != (int)PDU::RAW) return Verdict::bad("disk:parsed-differently", fmt("pass %d frame %zu: raw extraction is on, the frame came back as PDU type %d", pass, i, got[i].type));
                if (!want[i].israw && (got[i].type != want[i].type || got[i].size != want[i].size)) return Verdict::bad("disk:parsed-differently", fmt("pass %d frame %zu: loop produced type %d size %u, direct construction type %d size %u", pass, i, got[i].type, got[i].size, want[i].type, want[i].size));
            }
            // OfflinePacketFilter must agree with libpcap on every stored frame that parses (fvia == 2)
            if (!filt.empty() && filter_usable && fvia == 2 && header_ok) {
                try {
                    std::unique_ptr<OfflinePacketFilter> ofp; static const unsigned snaps[5] = { 65535u, 65535u, 0x7fffffffu, 0x80000000u, 0xffffffffu }; const int snapsel = (int)k.num("snaplen", 0); const unsigned snap = snaps[snapsel];
                    if (snapsel) { st.inc("probe.offline_filter_explicit_snaplen"); switch (dlt) { case DLT_EN10MB: ofp.reset(new OfflinePacketFilter(filt, DataLinkType<EthernetII>(), snap)); break; case DLT_LINUX_SLL: ofp.reset(new OfflinePacketFilter(filt, DataLinkType<SLL>(), snap)); break; case DLT_PPI: ofp.reset(new OfflinePacketFilter(filt, DataLinkType<PPI>(), snap)); break;
                                   case DLT_IEEE802_11: ofp.reset(new OfflinePacketFilter(filt, DataLinkType<Dot11>(), snap)); break; case DLT_IEEE802_11_RADIO: ofp.reset(new OfflinePacketFilter(filt, DataLinkType<RadioTap>(), snap)); break; case DLT_RAW: ofp.reset(new OfflinePacketFilter(filt, DataLinkType<IP>(), snap)); break; default: break; } }
                    else switch (dlt) { case DLT_EN10MB: ofp.reset(new OfflinePacketFilter(filt, DataLinkType<EthernetII>())); break; case DLT_LINUX_SLL: ofp.reset(new OfflinePacketFilter(filt, DataLinkType<SLL>())); break; case DLT_PPI: ofp.reset(new OfflinePacketFilter(filt, DataLinkType<PPI>())); break;
                                   case DLT_IEEE802_11: ofp.reset(new OfflinePacketFilter(filt, DataLinkType<Dot11>())); break; case DLT_IEEE802_11_RADIO: ofp.reset(new OfflinePacketFilter(filt, DataLinkType<RadioTap>())); break; case DLT_RAW: ofp.reset(new OfflinePacketFilter(filt, DataLinkType<IP>())); break; default: break; }
                    if (!ofp) throw invalid_pcap_filter("no DataLinkType for this link type");
                    OfflinePacketFilter of0(*ofp), of("len > 0", DataLinkType<EthernetII>()); of = of0; of = *&of;      // copy construction, assignment over a filter for another link type, self-assignment
                    ofp.reset();
                    pcap_t* d2 = pcap_open_dead(dlt, (int)snap); bpf_program pr2; if (d2 && pcap_compile(d2, &pr2, filt.c_str(), 1, PCAP_NETMASK_UNKNOWN) == 0) {
                        for (auto& r : recs) { std::unique_ptr<PDU> pdu; try { pdu.reset(construct(dlt, r.data)); } catch (malformed_packet&) {} if (!pdu) continue; PDU::serialization_type s; try { s = pdu->serialize(); } catch (std::exception&) { st.inc("probe.parsed_frame_not_serializable"); continue; } /* C02's subject, not judged here */ if (s.empty()) continue;
                            pcap_pkthdr h; memset(&h, 0, sizeof h); h.caplen = h.len = (bpf_u_int32)s.size(); bool ref = pcap_offline_filter(&pr2, &h, s.data()) != 0; bool sut = of.matches_filter(*pdu); st.inc("chk.offline_filter");
                            if (ref != sut) { pcap_freecode(&pr2); pcap_close(d2); return Verdict::bad("disk:offline-filter-disagrees", fmt("filter '%s' on a %zu-byte frame: OfflinePacketFilter=%d libpcap=%d", filt.c_str(), s.size(), sut, ref)); } }
                        pcap_freecode(&pr2); }
                    if (d2) pcap_close(d2);
                } catch (invalid_pcap_filter&) { st.inc("probe.offline_filter_rejected"); }
            }
        }
        uint64_t cls = std::min<size_t>(written.size(), 4) * 16 + (crashed ? 8 : 0) + (structure_damaged ? 4 : 0) + (header_ok ? 2 : 0) + (any_fault ? 1 : 0);
        { int di = dlt == DLT_EN10MB ? 1 : dlt == DLT_NULL ? 2 : dlt == DLT_RAW ? 3 : dlt == DLT_IEEE802_11 ? 4 : dlt == DLT_LINUX_SLL ? 5 : dlt == DLT_IEEE802_11_RADIO ? 6 : 7; uint64_t rm = 0; for (auto& l : p.steps) if (l.compare(0, 5, "read ") == 0) { KV k(l.substr(5)); rm = rm * 7 + (uint64_t)k.num("how") * 2 + (k.num("filter") ? 1 : 0) + 1; } st.states.insert(mix64((cls * 8 + di) * 400 + rm % 400, 0xC17)); } st.sched_sig = mix64(sig, cls); st.nontrivial = compared && (any_fault || st.ctr.count("probe.malformed_frame_skipped") || st.ctr.count("probe.frame_filtered_out"));
        st.sim_us = 0;
        return Verdict();
    }

    std::string signature(const Plan& p, const Verdict& v) { return v.cls + "|dlt=" + p.cfg.str("dlt") + "|" + p.cfg.str("writer"); }
};

int main(int argc, char** argv) { DiskEngine e; return engine_main(e, argc, argv); }
