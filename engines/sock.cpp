// Engine `sock`: C14 (the part reachable through PacketSender::send_recv).
// Real code: PacketSender (send_recv, send_l2/l3, recv_l2/l3, recv_match_loop), PDU::send/recv_response overrides,
// request serializers, every matches_response reached, pdu_from_flag on the winner.
// Stubs (defined in this executable, so libtins' calls bind here at link time): socket setsockopt sendto
// recvfrom select close, time clock_gettime gettimeofday (sim/simclock.hpp); the responder and strangers.
#include "kernel.hpp"
#include "codec.hpp"
#include "simclock.hpp"
#include <tins/tins.h>
#include <tins/pdu_cacher.h>
#include <tins/loopback.h>
#include <sys/socket.h>
#include <sys/select.h>
#include <netinet/in.h>
#include <memory>

using namespace sim; using namespace codec;

extern "C" __attribute__((used)) const char* __asan_default_options() { return "exitcode=77:detect_leaks=0:abort_on_error=0:allocator_may_return_null=1:detect_stack_use_after_return=0"; }
extern "C" __attribute__((used)) const char* __ubsan_default_options() { return "print_stacktrace=1:halt_on_error=1"; }

// ============================================================================ simulated socket layer
namespace simnet {
struct Sock { int domain, type, proto; bool open; };
struct Inbound { int64_t at; Bytes frame; int l3off; int label; int idx; bool consumed; int ethertype; int ipproto; bool v6; };
static bool active = false;
static std::map<int, Sock> socks; static int next_fd = 1000;
static std::vector<Inbound> inbound;        // arrival times are absolute simulated microseconds
static std::vector<Bytes> sent; static int64_t send_time = -1;
static std::vector<std::pair<int, int> > delivered_log;   // (inbound idx, fd)
static int last_delivered = -1;
static int n_select = 0, n_recvfrom = 0, n_sendto = 0;
// faults: nth call (1-based) of a kind -> errno
static std::map<int, int> fault_select, fault_recvfrom, fault_sendto; static std::map<int, int> fault_recvfrom_drop;
static std::map<std::string, uint64_t> fired;
static Rng tick_rng(1); static int64_t tick_lo = 1, tick_hi = 50;
static void tick() { sim::g_sim_now_us += tick_lo + (int64_t)tick_rng.below((uint64_t)(tick_hi - tick_lo + 1)); }
static void reset() { socks.clear(); next_fd = 1000; inbound.clear(); sent.clear(); send_time = -1; delivered_log.clear(); last_delivered = -1; n_select = n_recvfrom = n_sendto = 0; fault_select.clear(); fault_recvfrom.clear(); fault_sendto.clear(); fault_recvfrom_drop.clear(); }
static bool routes_to(const Inbound& in, const Sock& s) {
    if (s.domain == PF_PACKET) return true;
    if (in.l3off < 0) return false;
    if (s.domain == AF_INET) return !in.v6 && in.ethertype == 0x0800 && s.proto == in.ipproto;
    if (s.domain == AF_INET6) return in.v6 && (s.proto == IPPROTO_ICMPV6 ? in.ipproto == 58 : in.ipproto != 58);
    return false;
}
}

extern "C" {
int socket(int domain, int type, int proto) {
    if (!simnet::active) return (int)syscall(SYS_socket, domain, type, proto);
    simnet::tick(); int fd = simnet::next_fd++; simnet::Sock s; s.domain = domain; s.type = type; s.proto = proto; s.open = true; simnet::socks[fd] = s; return fd;
}
int setsockopt(int fd, int level, int name, const void* val, socklen_t len) {
    if (!simnet::active || !simnet::socks.count(fd)) return (int)syscall(SYS_setsockopt, fd, level, name, val, len);
    simnet::tick(); return 0;
}
int close(int fd) {
    if (!simnet::active || !simnet::socks.count(fd)) return (int)syscall(SYS_close, fd);
    simnet::tick(); simnet::socks[fd].open = false; return 0;
}
ssize_t sendto(int fd, const void* buf, size_t len, int flags, const struct sockaddr* to, socklen_t tolen) {
    if (!simnet::active || !simnet::socks.count(fd)) return syscall(SYS_sendto, fd, buf, len, flags, to, tolen);
    simnet::tick(); int n = ++simnet::n_sendto;
    if (simnet::fault_sendto.count(n)) { errno = simnet::fault_sendto[n]; simnet::fired["fault.sendto_error"]++; return -1; }
    simnet::sent.push_back(Bytes((const uint8_t*)buf, (const uint8_t*)buf + len));
    if (simnet::send_time < 0) simnet::send_time = sim::g_sim_now_us;
    return (ssize_t)len;
}
int select(int nfds, fd_set* rd, fd_set* wr, fd_set* ex, struct timeval* tv) {
    if (!simnet::active) return (int)syscall(SYS_select, nfds, rd, wr, ex, tv);
    simnet::tick(); int n = ++simnet::n_select;
    if (simnet::fault_select.count(n)) { errno = simnet::fault_select[n]; simnet::fired["fault.select_error"]++; return -1; }
    int64_t now = sim::g_sim_now_us; int64_t tmo = tv ? (int64_t)tv->tv_sec * 1000000 + tv->tv_usec : INT64_MAX / 4; if (tmo < 0) tmo = 0;
    int64_t deadline = now + tmo;
    // earliest unconsumed inbound frame routed to a watched socket (arrivals are relative to the send time)
    int64_t best = INT64_MAX;
    for (auto& in : simnet::inbound) { if (in.consumed) continue; for (auto& kv : simnet::socks) { if (kv.first < nfds && rd && FD_ISSET(kv.first, rd) && kv.second.open && simnet::routes_to(in, kv.second)) { best = std::min(best, in.at); } } }
    if (best == INT64_MAX || best > deadline) { sim::g_sim_now_us = deadline; if (rd) FD_ZERO(rd); return 0; }
    if (best > now) sim::g_sim_now_us = best; now = sim::g_sim_now_us;
    fd_set out; FD_ZERO(&out); int cnt = 0;
    for (auto& kv : simnet::socks) { if (!(kv.first < nfds && FD_ISSET(kv.first, rd) && kv.second.open)) continue; for (auto& in : simnet::inbound) if (!in.consumed && in.at <= now && simnet::routes_to(in, kv.second)) { FD_SET(kv.first, &out); ++cnt; break; } }
    *rd = out; return cnt;
}
ssize_t recvfrom(int fd, void* buf, size_t len, int flags, struct sockaddr* from, socklen_t* fromlen) {
    if (!simnet::active || !simnet::socks.count(fd)) return syscall(SYS_recvfrom, fd, buf, len, flags, from, fromlen);
    simnet::tick(); int n = ++simnet::n_recvfrom; int64_t now = sim::g_sim_now_us;
    if (simnet::fault_recvfrom.count(n)) { errno = simnet::fault_recvfrom[n]; simnet::fired["fault.recvfrom_error"]++;
        if (simnet::fault_recvfrom_drop.count(n)) { for (auto& in : simnet::inbound) if (!in.consumed && in.at <= now && simnet::routes_to(in, simnet::socks[fd])) { in.consumed = true; break; } }
        return -1; }
    simnet::Inbound* pick = 0;
    for (auto& in : simnet::inbound) if (!in.consumed && in.at <= now && simnet::routes_to(in, simnet::socks[fd])) { if (!pick || in.at < pick->at || (in.at == pick->at && in.idx < pick->idx)) pick = &in; }
    if (!pick) { errno = EAGAIN; return -1; }
    // a packet socket consumes the frame for every socket (one wire); L3 sockets see disjoint protocols
    pick->consumed = true; simnet::last_delivered = pick->idx; simnet::delivered_log.push_back(std::make_pair(pick->idx, fd));
    const Bytes& f = pick->frame; size_t off = simnet::socks[fd].domain == PF_PACKET ? 0 : (size_t)pick->l3off;
    size_t n2 = f.size() > off ? f.size() - off : 0; if (n2 > len) n2 = len;
    if (n2) memcpy(buf, f.data() + off, n2);
    return (ssize_t)n2;
}
}

// ============================================================================ request model
struct Req {
    bool l2, vlan, v6; int l4;    // l4: 0 tcp, 1 udp+raw, 2 udp+dns, 3 icmp echo, 4 icmp timestamp, 5 icmp addrmask, 6 icmpv6 echo
    Mac smac, dmac; uint16_t vid; Addr src, dst; uint8_t ttl, tos; uint16_t ipid; bool ipopt;
    uint16_t sport, dport; uint32_t seq, ack; uint8_t tcpflags; Bytes payload; uint16_t id, seqn; std::string qname;
    uint32_t timeout_s, timeout_us; int hist = 0;   // hist: what happened to the IPv4 request object before it is sent (1: serialized once before its options were added, 2: built with options, serialized, options removed again)
    std::string line() const {
        KV k; k.set("l2", l2).set("vlan", vlan).set("v6", v6).set("l4", l4).set("smac", Bytes(smac.b, smac.b + 6)).set("dmac", Bytes(dmac.b, dmac.b + 6)).set("vid", vid)
         .set("src", src.hexs()).set("dst", dst.hexs()).set("ttl", ttl).set("tos", tos).set("ipid", ipid).set("ipopt", ipopt).set("sport", sport).set("dport", dport).setu("seq", seq).setu("ack", ack)
         .set("tf", tcpflags).set("pl", payload).set("id", id).set("sq", seqn).set("qn", qname.empty() ? "-" : qname).set("tos_", 0).set("T", timeout_s).set("Tu", timeout_us).set("hist", hist);
        return k.line();
    }
    static Req parse(const KV& k) {
        Req r; r.l2 = k.num("l2"); r.vlan = k.num("vlan"); r.v6 = k.num("v6"); r.l4 = (int)k.num("l4"); Bytes a = k.bytes("smac"), b = k.bytes("dmac"); if (a.size() == 6) memcpy(r.smac.b, a.data(), 6); if (b.size() == 6) memcpy(r.dmac.b, b.data(), 6);
        r.vid = (uint16_t)k.num("vid"); r.src = Addr::from_hex(k.str("src")); r.dst = Addr::from_hex(k.str("dst")); r.ttl = (uint8_t)k.num("ttl"); r.tos = (uint8_t)k.num("tos"); r.ipid = (uint16_t)k.num("ipid"); r.ipopt = k.num("ipopt");
        r.sport = (uint16_t)k.num("sport"); r.dport = (uint16_t)k.num("dport"); r.seq = (uint32_t)k.u64("seq"); r.ack = (uint32_t)k.u64("ack"); r.tcpflags = (uint8_t)k.num("tf"); r.payload = k.bytes("pl");
        r.id = (uint16_t)k.num("id"); r.seqn = (uint16_t)k.num("sq"); r.qname = k.str("qn") == "-" ? "" : k.str("qn"); r.timeout_s = (uint32_t)k.num("T"); r.timeout_us = (uint32_t)k.num("Tu"); r.hist = (int)k.num("hist", 0); return r;
    }
};

// L4 bytes of a frame travelling src->dst. `reply` selects reply types; ids/ports given explicitly so perturbations are just other arguments
static Bytes l4_bytes(const Req& q, bool reply, const Addr& src, const Addr& dst, uint16_t sport, uint16_t dport, uint16_t id, uint16_t sq, int icmp_type_override, Rng& r, uint8_t& proto) {
    switch (q.l4) {
        case 0: { proto = 6; TcpSeg s; s.sport = sport; s.dport = dport; s.seq = reply ? (uint32_t)r.next() : q.seq; s.ack = reply ? q.seq + 1 : q.ack; s.flags = reply ? (r.chance(0.5) ? (TH_SYN | TH_ACK) : (TH_RST | TH_ACK)) : q.tcpflags; if (reply && r.chance(0.3)) s.opt_mss(1460); if (!reply) s.payload = q.payload; else if (r.chance(0.3)) s.payload = r.bytes((size_t)r.range(1, 40)); return tcp_bytes(s, src, dst); }
        case 1: { proto = 17; return udp_bytes(sport, dport, reply ? r.bytes((size_t)r.range(1, 60)) : q.payload, src, dst); }
        case 2: { proto = 17; if (reply && (q.seqn & 3) == 0) { Bytes d(12, 0); d[0] = (uint8_t)(id >> 8); d[1] = (uint8_t)id; d[2] = 0x81; d[3] = 0x85; return udp_bytes(sport, dport, d, src, dst); }   /* a server that refuses: header only (same id, QR, RCODE 5), shorter than the query */
                  return udp_bytes(sport, dport, dns_bytes(id, reply, q.qname, reply), src, dst); }
        case 3: case 4: case 5: { proto = 1; static const uint8_t rq[3] = { 8, 13, 17 }, rp[3] = { 0, 14, 18 }; uint8_t t = reply ? rp[q.l4 - 3] : rq[q.l4 - 3]; if (icmp_type_override >= 0) t = (uint8_t)icmp_type_override;
                  Bytes rest = q.l4 == 3 ? (reply ? q.payload : q.payload) : q.l4 == 4 ? Bytes(12, 0) : Bytes(4, 0); return icmp_bytes(t, 0, id, sq, rest); }
        case 7: { proto = 17; uint32_t xid = q.seq ^ (uint32_t)(id ^ q.id); Bytes b; b.push_back(reply ? 2 : 1); b.push_back(1); b.push_back(6); b.push_back(0); put32(b, xid); put16(b, 0); put16(b, 0); for (int i = 0; i < 4; ++i) put32(b, reply && i == 1 ? 0x0a000063u : 0); b.resize(b.size() + 16 + 64 + 128, 0); put32(b, 0x63825363); b.push_back(53); b.push_back(1); b.push_back(reply ? 2 : 1); if (reply) { b.push_back(54); b.push_back(4); putb(b, src.b, 4); } b.push_back(255); return udp_bytes(sport, dport, b, src, dst); }
        case 8: { proto = 17; uint32_t xid = (q.seq ^ (uint32_t)(id ^ q.id)) & 0xffffff; Bytes b; b.push_back(reply ? 2 : 1); b.push_back((uint8_t)(xid >> 16)); b.push_back((uint8_t)(xid >> 8)); b.push_back((uint8_t)xid); put16(b, 1); put16(b, 10); put16(b, 3); put16(b, 1); putb(b, r.bytes(6)); if (reply) { put16(b, 2); put16(b, 10); put16(b, 3); put16(b, 1); putb(b, r.bytes(6)); } return udp_bytes(sport, dport, b, src, dst); }
        default: { proto = 58; uint8_t t = reply ? 129 : 128; if (icmp_type_override >= 0) t = (uint8_t)icmp_type_override; return icmp6_bytes(t, 0, id, sq, q.payload, src, dst); }
    }
}
// extension header length in 8-byte units beyond the first: small ones and ones of 256 bytes and more (Hdr Ext Len >= 31)
static size_t ext6_units(const Req& q) { static const uint16_t tab[8] = { 0, 1, 2, 255, 31, 32, 40, 120 };   /* 255: the maximum, a 2048-byte header - larger than the 2048-byte receive buffer of send_recv, so those ops are judged through the direct matcher call only */ return tab[(q.tos & 3) + ((q.tos & 8) ? 4 : 0)]; }
static Bytes l3_bytes(const Req& q, const Addr& src, const Addr& dst, uint8_t proto, const Bytes& l4, Rng& r, uint16_t ipid) {
    if (q.v6) {
        if (!q.ipopt) return ip6_bytes(src, dst, proto, l4, (uint8_t)r.range(1, 255));
        // one destination-options / hop-by-hop header of (units+1)*8 bytes in front of the upper layer (units kept in q.tos)
        size_t units = ext6_units(q); Bytes e; e.push_back(proto); e.push_back((uint8_t)units); size_t body = 6 + 8 * units;
        while (body) { if (body == 1) { e.push_back(0); break; } size_t n = std::min<size_t>(body, 257); e.push_back(1); e.push_back((uint8_t)(n - 2)); for (size_t i = 2; i < n; ++i) e.push_back(0); body -= n; }      // PadN options (Pad1 for a single left-over byte)
        putb(e, l4);
        return ip6_bytes(src, dst, (uint8_t)((q.tos & 4) ? 0 : 60), e, (uint8_t)r.range(1, 255)); }
    Ip4Hdr h; h.src = src; h.dst = dst; h.proto = proto; h.id = ipid; h.ttl = (uint8_t)r.range(1, 255); h.tos = (uint8_t)(r.chance(0.3) ? r.next() : 0);
    // replies whose IP option layout differs from the request's are left open by the property: generated frames keep the request's layout
    if (q.ipopt) { for (int i = 0; i < 4; ++i) h.options.push_back(1); }
    return ip4_bytes(h, l4);
}
static Bytes l2_wrap(const Req& q, const Mac& src, const Mac& dst, uint16_t vid, const Bytes& l3, bool pad) {
    uint16_t et = q.v6 ? 0x86dd : 0x0800;
    if (q.vlan) return eth_vlan_bytes(dst, src, vid, et, l3, pad);
    return eth_bytes(dst, src, et, l3, pad);
}

// perturbation of a matched field: mostly a single flipped bit (a matcher that compares only part of the field must not get away), otherwise any other value
static uint16_t pert16(Rng& r, uint16_t v, int bits = 16) { uint16_t m = (uint16_t)((1u << bits) - 1); if (r.chance(0.6)) return (uint16_t)(v ^ (1u << r.below((uint64_t)bits))); uint16_t o = (uint16_t)((v + 1 + r.below((uint64_t)m - 1)) & m); return o == v ? (uint16_t)(v ^ 1) : o; }
static Addr pert_addr(Rng& r, const Addr& a, const Addr& other) { if (r.chance(0.5)) return other; Addr x = a; size_t bit = r.below((uint64_t)a.len * 8); if (bit < 8) bit += 8; /* keep the class of the address (first byte) */ x.b[bit / 8] ^= (uint8_t)(1u << (bit % 8)); return x; }
static Mac pert_mac(Rng& r, const Mac& a) { if (r.chance(0.5)) return Mac::of(9); Mac x = a; size_t bit = 8 + r.below(40); x.b[bit / 8] ^= (uint8_t)(1u << (bit % 8)); return x; }
struct SockEngine : Engine {
    const char* name() const { return "sock"; }
    std::string components_json() const {
        return "{\"real\":[\"PacketSender::send_recv/send_l2/send_l3/recv_l2/recv_l3/recv_match_loop\",\"EthernetII/Dot1Q/IP/IPv6/TCP/UDP/ICMP/ICMPv6/DNS/RawPDU send, recv_response, serialize, matches_response\",\"Internals::pdu_from_flag on the winner\",\"std::chrono::system_clock via interposed clock_gettime\"],"
               "\"stub\":[\"socket/setsockopt/sendto/recvfrom/select/close (simulated sockets, defined in the harness executable)\",\"time/clock_gettime/gettimeofday (simulated clock)\",\"responder and strangers (sim/codec)\",\"NetworkInterface::from_index (no OS lookup)\"]}";
    }
    std::string rule_text(const std::string&) const {
        return "one run = 1-4 send_recv calls; each call = a request stack (IP|IPv6|Eth|Eth+Dot1Q x TCP|UDP+payload|UDP/DNS|ICMP echo/timestamp/address-mask|ICMPv6 echo, random field values, time-out, start time drawn across the second) plus the explicit list of frames the simulated network delivers (mirror reply with drawn delay/loss/dup; single-field perturbations of the mirror on every matched field; unrelated traffic; ICMP errors quoting this or other packets; truncations; zero-length datagrams) and syscall faults attached to the call. Oracle: only the first TRUE frame may be returned, a TRUE frame inside the must-catch window must be returned, the call returns within the time-out (+slack) of simulated time. distinct = signature of (stack, delivered label sequence, faults); non-trivial = at least one stranger or fault was delivered before the decision";
    }

    Plan generate(uint64_t seed, const std::string&, const std::string& tier) {
        Rng root(seed); Rng cfg = root.fork("cfg"), wl = root.fork("workload"), net = root.fork("net");
        Plan p; p.engine = "sock"; p.mode = "sock"; p.seed = seed; p.cfg.set("property", "C14");
        p.cfg.set("ticklo", 1).set("tickhi", (int64_t)cfg.range(1, 50)).setu("tickseed", root.fork("tick").next());
        int nops = (int)cfg.range(1, tier == "thorough" ? 6 : 3);
        for (int op = 0; op < nops; ++op) {
            Req q; q.l2 = cfg.chance(0.4); q.vlan = q.l2 && cfg.chance(0.4); q.v6 = cfg.chance(0.3);
            const int v4k[7] = { 0, 1, 2, 3, 4, 5, 7 }, v6k[5] = { 0, 1, 2, 6, 8 }; q.l4 = q.v6 ? v6k[cfg.below(5)] : v4k[cfg.below(7)];
            q.smac = Mac::of((uint8_t)cfg.range(1, 3)); q.dmac = Mac::of((uint8_t)cfg.range(4, 6)); q.vid = (uint16_t)cfg.range(0, 4095);
            if (q.v6) { uint8_t a[16] = { 0x20, 0x01, 0x0d, 0xb8 }, b[16] = { 0x20, 0x01, 0x0d, 0xb8 }; a[15] = (uint8_t)cfg.range(1, 3); b[15] = (uint8_t)cfg.range(4, 6); if (cfg.chance(0.3)) { b[0] = 0x2a; b[1] = 0x02; } if (cfg.chance(0.2)) { for (int i = 4; i < 15; ++i) b[i] = (uint8_t)cfg.next(); } q.src = Addr::v6(a); q.dst = Addr::v6(b); }
            else { q.src = Addr::v4(10, 0, (uint8_t)cfg.range(0, 1), (uint8_t)cfg.range(1, 3)); q.dst = Addr::v4(cfg.chance(0.5) ? 10 : 192, (uint8_t)cfg.range(0, 1), 0, (uint8_t)cfg.range(4, 6)); }
            bool bcast = !q.v6 && q.l4 != 7 && cfg.chance(0.1); if (bcast) { q.dst = Addr::v4(255, 255, 255, 255); for (int i = 0; i < 6; ++i) q.dmac.b[i] = 0xff; }
            const Addr ra = bcast ? Addr::v4(10, 0, 0, 77) : q.dst; Mac rm = q.dmac; if (bcast) rm = Mac::of(5);      // who answers
            q.ttl = (uint8_t)cfg.range(1, 255); q.tos = (uint8_t)(cfg.chance(0.3) ? cfg.next() : 0); q.ipid = (uint16_t)cfg.range(1, 65535); q.ipopt = cfg.chance(q.v6 ? 0.3 : 0.2); if (q.v6) q.tos = (uint8_t)(cfg.below(8) | (cfg.chance(0.3) ? 8 : 0));
            q.sport = (uint16_t)cfg.range(1, 65535); q.dport = cfg.chance(0.3) ? 53 : (uint16_t)cfg.range(1, 65535); if (q.sport == q.dport) q.dport ^= 1; { Rng ep = root.fork(fmt("equalports%d", op).c_str()); if (ep.chance(0.08)) q.sport = q.dport; }   /* symmetric services (NTP 123<->123, IKE 500<->500, DNS between servers) use the same port on both sides */
            if (q.l4 == 7) { q.sport = 68; q.dport = 67; } if (q.l4 == 8) { q.sport = 546; q.dport = 547; }
            q.seq = (uint32_t)cfg.next(); q.ack = (uint32_t)cfg.next(); q.tcpflags = cfg.chance(0.6) ? TH_SYN : (TH_ACK | TH_PSH);
            q.payload = (q.l4 == 1) ? wl.bytes((size_t)cfg.range(1, 80)) : (q.l4 == 0 && !(q.tcpflags & TH_SYN) && cfg.chance(0.5)) ? wl.bytes((size_t)cfg.range(1, 40)) : (q.l4 == 3 || q.l4 == 6) ? wl.bytes((size_t)cfg.range(0, 48)) : Bytes();
            { Rng bp = root.fork(fmt("bigpayload%d", op).c_str()); if ((q.l4 == 1 || q.l4 == 3 || q.l4 == 6) && bp.chance(0.2)) q.payload = bp.bytes((size_t)bp.range(100, 1200));      // large echo / datagram payloads
              Rng hs = root.fork(fmt("history%d", op).c_str()); if (!q.v6 && hs.chance(0.25)) q.hist = (int)hs.range(1, 2); if (q.v6 && hs.chance(0.25)) q.hist = (int)hs.range(3, 4); }
            q.id = (uint16_t)cfg.next(); q.seqn = (uint16_t)cfg.next(); q.qname = cfg.chance(0.5) ? "www.example.com" : "a.b";
            q.timeout_s = (uint32_t)cfg.range(1, 5); if (cfg.chance(0.15)) q.timeout_s = (uint32_t)cfg.range(6, 60); q.timeout_us = cfg.chance(0.5) ? 0 : (uint32_t)cfg.range(0, 999999);
            int64_t start = 1700000000LL * 1000000 + (int64_t)cfg.range(0, 86400) * 1000000 + (cfg.chance(0.3) ? (int64_t)cfg.range(990000, 999999) : (int64_t)cfg.range(0, 999999));
            KV o; o.set("op", op).set("start", start); for (auto& kv : KV(q.line()).v) o.set(kv.first, kv.second);
            p.steps.push_back("req " + o.line());
            // ---------------- environment of this call
            int64_t T = (int64_t)q.timeout_s * 1000000 + q.timeout_us;
            struct In { int64_t at; Bytes f; int label; std::string pert; };
            std::vector<In> ins; const Addr other = q.v6 ? Addr::v6((const uint8_t*)"\x20\x01\x0d\xb8\0\0\0\0\0\0\0\0\0\0\0\x63") : Addr::v4(172, 16, 0, 99);
            auto frame = [&](const Addr& s, const Addr& d, const Mac& ms, const Mac& md, uint16_t vid, uint16_t sp, uint16_t dp, uint16_t id, uint16_t sq, int ty, bool reply) {
                uint8_t proto = 0; Bytes l4 = l4_bytes(q, reply, s, d, sp, dp, id, sq, ty, net, proto); return l2_wrap(q, ms, md, vid, l3_bytes(q, s, d, proto, l4, net, (uint16_t)net.next()), net.chance(0.7)); };
            auto mirror = [&]() { return frame(ra, q.src, rm, q.smac, q.vid, q.dport, q.sport, q.id, q.seqn, -1, true); };
            // the mirror: delay classes - fast, just inside the must-catch window, in the last second, too late, lost
            int mclass = (int)cfg.below(10); int64_t md = 0; bool mlost = false;
            if (mclass < 4) md = (int64_t)cfg.small(100, std::min<int64_t>(T - 1000000 > 200 ? T - 1000000 - 100 : 200, 2000000));
            else if (mclass == 4) md = std::max<int64_t>(100, T - 1000000 - (int64_t)cfg.range(100, 50000));
            else if (mclass == 5) md = T - (int64_t)cfg.range(0, 999999);
            else if (mclass == 6) md = T + (int64_t)cfg.range(100000, 3000000);
            else if (mclass == 7) mlost = true;
            else md = (int64_t)cfg.range(100, 100000);
            if (md < 50) md = 50;
            if (!mlost) { In m; m.at = md; m.f = mirror(); m.label = 1; m.pert = "mirror"; ins.push_back(m); if (cfg.chance(0.2)) { In m2 = m; m2.at += (int64_t)cfg.range(0, 5000); m2.pert = "mirror-dup"; ins.push_back(m2); } }
            // ICMP destination unreachable quoting exactly the request's IP header (TRUE) - v4, all request kinds
            // (the request's header bytes depend on what libtins serializes; the executor patches them in: marker pert=unreach-own)
            if (!q.v6 && cfg.chance(0.2)) { In u; u.at = (int64_t)cfg.range(100, T); u.label = 1; u.pert = "unreach-own"; ins.push_back(u); }
            // strangers
            int ns = (int)cfg.small(0, tier == "thorough" ? 40 : 14);
            for (int i = 0; i < ns; ++i) {
                In s; s.label = 0; s.at = cfg.chance(0.7) ? (int64_t)cfg.range(10, std::max<int64_t>(md, 20)) : (int64_t)cfg.range(10, T + 500000);
                int kind = (int)cfg.below(16); uint16_t vid2 = pert16(cfg, q.vid, 12);
                switch (kind) {
                    case 0: if (!q.l2) { kind = 2; } else { s.pert = "eth-dst"; s.f = frame(ra, q.src, rm, pert_mac(cfg, q.smac), q.vid, q.dport, q.sport, q.id, q.seqn, -1, true); break; }
                    case 1: if (!q.vlan) { kind = 3; } else { s.pert = "vlan-id"; s.f = frame(ra, q.src, rm, q.smac, vid2, q.dport, q.sport, q.id, q.seqn, -1, true); break; }
                    case 2: if (bcast) { s.pert = "unrelated"; s.f = frame(other, other, Mac::of(7), Mac::of(8), q.vid, q.dport, q.sport, q.id, q.seqn, -1, true); break; }   /* any host may answer a broadcast: a reply from another source is not a stranger */
                            s.pert = "ip-src"; s.f = frame(pert_addr(cfg, ra, other), q.src, rm, q.smac, q.vid, q.dport, q.sport, q.id, q.seqn, -1, true); break;
                    case 3: s.pert = "ip-dst"; s.f = frame(ra, pert_addr(cfg, q.src, other), rm, q.smac, q.vid, q.dport, q.sport, q.id, q.seqn, -1, true); break;
                    case 4: if (q.l4 > 2 && q.l4 < 7) { s.pert = "icmp-id"; s.f = frame(ra, q.src, rm, q.smac, q.vid, q.dport, q.sport, pert16(cfg, q.id), q.seqn, -1, true); } else { s.pert = "l4-sport"; s.f = frame(ra, q.src, rm, q.smac, q.vid, pert16(cfg, q.dport), q.sport, q.id, q.seqn, -1, true); } break;
                    case 5: if (q.l4 > 2 && q.l4 < 7) { s.pert = "icmp-seq"; s.f = frame(ra, q.src, rm, q.smac, q.vid, q.dport, q.sport, q.id, pert16(cfg, q.seqn), -1, true); } else { s.pert = "l4-dport"; s.f = frame(ra, q.src, rm, q.smac, q.vid, q.dport, pert16(cfg, q.sport), q.id, q.seqn, -1, true); } break;
                    case 6: if (q.l4 >= 7) { s.pert = "dhcp-xid"; s.f = frame(ra, q.src, rm, q.smac, q.vid, q.dport, q.sport, pert16(cfg, q.id), q.seqn, -1, true); }
                            else if (q.l4 > 2) { s.pert = "icmp-type"; static const int wrong4[4] = { 8, 13, 17, 11 }; int ty = q.l4 == 6 ? (cfg.chance(0.5) ? 128 : 1) : wrong4[cfg.below(4)]; s.f = frame(ra, q.src, rm, q.smac, q.vid, q.dport, q.sport, q.id, q.seqn, ty, true); }
                            else if (q.l4 == 2) { s.pert = "dns-id"; s.f = frame(ra, q.src, rm, q.smac, q.vid, q.dport, q.sport, pert16(cfg, q.id), q.seqn, -1, true); }
                            else if (q.sport != q.dport) { s.pert = "ports-not-swapped"; s.f = frame(ra, q.src, rm, q.smac, q.vid, q.sport, q.dport, q.id, q.seqn, -1, true); }
                            else { s.pert = "l4-dport"; s.f = frame(ra, q.src, rm, q.smac, q.vid, q.dport, pert16(cfg, q.sport), q.id, q.seqn, -1, true); } break;
                    case 7: { s.pert = "unrelated"; Addr x = other, y = q.v6 ? Addr::v6((const uint8_t*)"\x20\x01\x0d\xb8\0\0\0\0\0\0\0\0\0\0\0\x64") : Addr::v4(172, 16, 0, 100); s.f = frame(x, y, Mac::of(7), Mac::of(8), vid2, (uint16_t)cfg.next(), (uint16_t)cfg.next(), (uint16_t)cfg.next(), (uint16_t)cfg.next(), -1, cfg.chance(0.5)); break; }
                    case 8: case 9: if (q.v6) { s.pert = "unrelated"; s.f = frame(other, q.src, Mac::of(7), q.smac, q.vid, (uint16_t)cfg.next(), (uint16_t)cfg.next(), (uint16_t)cfg.next(), (uint16_t)cfg.next(), 1, true); }
                            else {   // ICMP destination unreachable quoting ANOTHER packet, sent to us by some router
                                s.pert = "unreach-foreign"; Ip4Hdr qh; qh.src = q.src; qh.dst = cfg.chance(0.5) ? q.dst : other; qh.proto = cfg.chance(0.5) ? 17 : 6; qh.id = (uint16_t)(q.ipid + 1 + cfg.below(1000)); qh.ttl = (uint8_t)cfg.range(1, 64);
                                Bytes quoted = ip4_bytes(qh, net.bytes(8)); Bytes ic = icmp_bytes(3, (uint8_t)cfg.range(0, 3), 0, 0, quoted);
                                Ip4Hdr oh; oh.src = cfg.chance(0.5) ? ra : other; oh.dst = q.src; oh.proto = 1; oh.id = (uint16_t)net.next(); Req q4 = q; q4.v6 = false; s.f = l2_wrap(q4, rm, q.smac, q.vid, ip4_bytes(oh, ic), true); }
                            break;
                    case 10: case 11: case 12: {   // truncations of the mirror below the end of the innermost matched header
                        Bytes m = mirror(); size_t l2 = q.l2 ? (q.vlan ? 18 : 14) : 14; size_t ext6 = (q.v6 && q.ipopt) ? (ext6_units(q) + 1) * 8 : 0; size_t l3 = q.v6 ? 40 + ext6 : 20; size_t l4need = q.l4 == 0 ? 20 : q.l4 == 1 ? 8 : q.l4 == 2 ? 20 : q.l4 == 7 ? 8 + 236 : q.l4 == 8 ? 8 + 4 : 8;
                        size_t base = q.l2 ? 0 : l2; size_t cutmax = l2 + l3 + l4need - 1; std::vector<size_t> pts; pts.push_back(base); pts.push_back(l2); pts.push_back(l2 + 1); pts.push_back(l2 + l3 - 1); pts.push_back(l2 + l3); pts.push_back(l2 + l3 + 1); pts.push_back(cutmax); if (l2 > 1) pts.push_back(l2 - 1); if (ext6) { for (size_t j = 1; j <= 8; ++j) pts.push_back(l2 + l3 - j); pts.push_back(l2 + 40 + 1); pts.push_back(l2 + 40 + 2); }
                        size_t cut = pts[cfg.below(pts.size())]; if (cfg.chance(0.3)) cut = (size_t)cfg.range((int64_t)base, (int64_t)cutmax); if (cut > cutmax) cut = cutmax; if (cut < base) cut = base;
                        m.resize(std::min(m.size(), cut)); s.pert = fmt("truncated:%zu", cut - base); s.f = m; break; }
                    case 13: { s.pert = "zero-length"; Bytes m = mirror(); m.resize(q.l2 ? 0 : 14); s.f = m; break; }
                    case 14: { s.pert = "request-echoed"; s.f = frame(q.src, q.dst, q.smac, q.dmac, q.vid, q.sport, q.dport, q.id, q.seqn, -1, false); break; }   // our own request looped back (e.g. seen on a packet socket)
                    default: { s.pert = "other-transport"; Req q2 = q; q2.l4 = q.v6 ? (q.l4 == 6 ? 1 : 6) : ((q.l4 >= 3 && q.l4 < 7) ? 1 : 3); q2.payload = wl.bytes(8); uint8_t proto = 0; Bytes l4 = l4_bytes(q2, true, q.dst, q.src, q.dport, q.sport, (uint16_t)(q.id + 1), q.seqn, -1, net, proto);
                               s.f = l2_wrap(q, rm, q.smac, q.vid, l3_bytes(q, ra, q.src, proto, l4, net, (uint16_t)net.next()), true); break; }
                }
                if (s.pert == "request-echoed" && !q.l2) { /* an L3 raw socket never sees our own outgoing packet */ continue; }
                if (s.pert == "request-echoed") {
                    // a looped-back request has src MAC = ours, so EthernetII's destination check already rejects it unless smac==dmac (never)
                }
                ins.push_back(s);
            }
            std::stable_sort(ins.begin(), ins.end(), [](const In& a, const In& b) { return a.at < b.at; });
            for (auto& in : ins) { KV k; k.set("op", op).set("at", in.at).set("label", in.label).set("pert", in.pert).set("f", in.f); p.steps.push_back("in " + k.line()); }
            // syscall faults attached to this call
            if (cfg.chance(0.25)) {
                int nf = (int)cfg.range(1, 3);
                for (int i = 0; i < nf; ++i) {
                    KV k; k.set("op", op); int w = (int)cfg.below(10);
                    if (w < 5) { k.set("call", "recvfrom").set("nth", (int64_t)cfg.range(1, 6)).set("err", cfg.chance(0.5) ? EINTR : EAGAIN).set("drop", cfg.chance(0.5) ? 1 : 0); }
                    else if (w < 8) { k.set("call", "select").set("nth", (int64_t)cfg.range(1, 5)).set("err", EINTR); }
                    else { k.set("call", "sendto").set("nth", 1).set("err", cfg.chance(0.5) ? ENOBUFS : EPERM); }
                    p.steps.push_back("fault " + k.line());
                }
            }
        }
        return p;
    }

    // Build the request with the public libtins API from the planned field values
    static std::unique_ptr<Tins::PDU> build(const Req& q) {
        using namespace Tins; std::unique_ptr<PDU> l4;
        switch (q.l4) {
            case 0: { TCP* t = new TCP(q.dport, q.sport); t->seq(q.seq); t->ack_seq(q.ack); t->flags(q.tcpflags); l4.reset(t); if (!q.payload.empty()) t->inner_pdu(RawPDU(q.payload.data(), (uint32_t)q.payload.size())); break; }
            case 1: { UDP* u = new UDP(q.dport, q.sport); u->inner_pdu(RawPDU(q.payload.data(), (uint32_t)q.payload.size())); l4.reset(u); break; }
            case 2: { UDP* u = new UDP(q.dport, q.sport); DNS d; d.id(q.id); d.type(DNS::QUERY); d.recursion_desired(1); d.add_query(DNS::query(q.qname, DNS::A, DNS::INTERNET)); u->inner_pdu(d); l4.reset(u); break; }
            case 3: { ICMP* i = new ICMP(ICMP::ECHO_REQUEST); i->id(q.id); i->sequence(q.seqn); if (!q.payload.empty()) i->inner_pdu(RawPDU(q.payload.data(), (uint32_t)q.payload.size())); l4.reset(i); break; }
            case 4: { ICMP* i = new ICMP(ICMP::TIMESTAMP_REQUEST); i->id(q.id); i->sequence(q.seqn); l4.reset(i); break; }
            case 5: { ICMP* i = new ICMP(ICMP::ADDRESS_MASK_REQUEST); i->id(q.id); i->sequence(q.seqn); l4.reset(i); break; }
            case 7: { UDP* u = new UDP(q.dport, q.sport); DHCP d; d.xid(q.seq); d.type(DHCP::DISCOVER); d.end(); u->inner_pdu(d); l4.reset(u); break; }
            case 8: { UDP* u = new UDP(q.dport, q.sport); DHCPv6 d; d.msg_type(DHCPv6::SOLICIT); d.transaction_id(q.seq & 0xffffff); u->inner_pdu(d); l4.reset(u); break; }
            default: { ICMPv6* i = new ICMPv6(ICMPv6::ECHO_REQUEST); i->identifier(q.id); i->sequence(q.seqn); if (!q.payload.empty()) i->inner_pdu(RawPDU(q.payload.data(), (uint32_t)q.payload.size())); l4.reset(i); break; }
        }
        std::unique_ptr<PDU> l3;
        if (q.v6) { IPv6* ip = new IPv6(IPv6Address(q.dst.b), IPv6Address(q.src.b)); ip->hop_limit(q.ttl);
            if (q.hist >= 3) { const uint8_t padn[6] = { 1, 4, 0, 0, 0, 0 }; for (int i = 0; i < q.hist - 2; ++i) ip->add_header(IPv6::ext_header(IPv6::DESTINATION_ROUTING_OPTIONS, padn, padn + 6)); }   /* one or two Destination Options headers (PadN) */
            l3.reset(ip); }
        else { IP* ip = new IP(IPv4Address(q.dst.str()), IPv4Address(q.src.str())); ip->ttl(q.ttl); ip->tos(q.tos); ip->id(q.ipid); const IP::option_identifier noop(IP::NOOP, IP::CONTROL, 0);
            if (q.hist == 1 && q.ipopt) { (void)ip->serialize(); }      /* the object went over the wire once before the application added options to it */
            if (q.ipopt || q.hist == 2) { for (int i = 0; i < 4; ++i) ip->add_option(IP::option(noop)); }
            if (q.hist == 2 && !q.ipopt) { (void)ip->serialize(); while (ip->remove_option(noop)) {} }      /* options present when it was serialized, removed since */
            l3.reset(ip); }
        l3->inner_pdu(l4.release());
        if (!q.l2) return l3;
        std::unique_ptr<PDU> eth(new EthernetII(EthernetII::address_type(q.dmac.b), EthernetII::address_type(q.smac.b)));
        if (q.vlan) { Dot1Q* v = new Dot1Q(q.vid, false); v->inner_pdu(l3.release()); eth->inner_pdu(v); } else eth->inner_pdu(l3.release());
        return eth;
    }

    Verdict execute(const Plan& p, RunStats& st, Trace& tr) {
        simnet::tick_rng.reseed(p.cfg.u64("tickseed", 1)); simnet::tick_lo = p.cfg.num("ticklo", 1); simnet::tick_hi = std::max<int64_t>(simnet::tick_lo, p.cfg.num("tickhi", 50));
        struct Guard { ~Guard() { simnet::active = false; sim::g_sim_now_us = -1; } } guard;
        // group lines by op
        std::vector<int> ops; for (auto& l : p.steps) if (l.compare(0, 4, "req ") == 0) ops.push_back((int)KV(l.substr(4)).num("op"));
        uint64_t sig = 0xC14; bool nontrivial = false; int64_t sim_total = 0; int stepno = -1;
        for (size_t li = 0; li < p.steps.size(); ++li) {
            const std::string& l = p.steps[li]; ++stepno;
            if (l.compare(0, 4, "req ") != 0) continue;
            KV rk(l.substr(4)); int op = (int)rk.num("op"); Req q = Req::parse(rk); int64_t start = rk.num("start");
            simnet::reset(); simnet::fired.clear();
            std::vector<std::string> perts; std::vector<int> labels; std::vector<int64_t> ats; std::vector<int> own_unreach;
            for (auto& m : p.steps) {
                if (m.compare(0, 3, "in ") == 0) { KV k(m.substr(3)); if (k.num("op") != op) continue;
                    simnet::Inbound in; in.at = k.num("at"); in.frame = k.bytes("f"); in.label = (int)k.num("label"); in.idx = (int)simnet::inbound.size(); in.consumed = false; in.l3off = -1; in.ethertype = 0; in.ipproto = -1; in.v6 = false;
                    if (k.str("pert") == "unreach-own") own_unreach.push_back(in.idx);
                    perts.push_back(k.str("pert")); labels.push_back(in.label); ats.push_back(in.at); simnet::inbound.push_back(in); }
                else if (m.compare(0, 6, "fault ") == 0) { KV k(m.substr(6)); if (k.num("op") != op) continue; int nth = (int)k.num("nth"), err = (int)k.num("err"); std::string c = k.str("call");
                    if (c == "recvfrom") { simnet::fault_recvfrom[nth] = err; if (k.num("drop")) simnet::fault_recvfrom_drop[nth] = 1; } else if (c == "select") simnet::fault_select[nth] = err; else simnet::fault_sendto[nth] = err; }
            }
            std::unique_ptr<Tins::PDU> req = build(q);
            // a request that is sent again (a retry after a time-out) must go out as the same frame: serializing leaves the object as it was
            if (q.hist) { st.inc("chk.request_serializes_the_same_twice"); Tins::PDU::serialization_type s1 = req->serialize(), s2 = req->serialize();
                if (s1 != s2) return Verdict::bad("sock:request-changes-between-sends", fmt("op %d: the second serialization of the same request object differs from the first (%zu / %zu bytes)", op, s1.size(), s2.size()), stepno); }
            Tins::PacketSender sender(Tins::NetworkInterface::from_index(1), q.timeout_s, q.timeout_us);
            // the ICMP error quoting exactly our header needs the bytes libtins will send: serialize a clone (same fields => same bytes)
            if (!own_unreach.empty()) {
                std::unique_ptr<Tins::PDU> c(req->clone()); Tins::PDU::serialization_type s = c->serialize(); size_t off = q.l2 ? (q.vlan ? 18 : 14) : 0;
                Bytes quoted(s.begin() + off, s.begin() + std::min(s.size(), off + 28 + (q.ipopt ? 4 : 0)));
                Bytes ic = icmp_bytes(3, 3, 0, 0, quoted); Ip4Hdr oh; oh.src = q.dst.b[0] == 255 ? Addr::v4(10, 0, 0, 77) : q.dst; oh.dst = q.src; oh.proto = 1; oh.id = 0x4242; oh.tos = 0xc0; Mac rmac = q.dmac; if (q.dmac.b[0] == 0xff) rmac = Mac::of(5);
                for (int ix : own_unreach) simnet::inbound[ix].frame = l2_wrap(q, rmac, q.smac, q.vid, ip4_bytes(oh, ic), true);
            }
            for (auto& in : simnet::inbound) {   // routing metadata from an independent decode
                const Bytes& f = in.frame; if (f.size() < 14) continue; uint16_t et = get16(&f[12]); size_t o = 14; if (et == 0x8100 && f.size() >= 18) { et = get16(&f[16]); o = 18; }
                in.ethertype = et; if (f.size() <= o) continue; in.l3off = (int)o; in.v6 = et == 0x86dd;
                if (et == 0x0800 && f.size() >= o + 20) in.ipproto = f[o + 9]; else if (et == 0x86dd && f.size() >= o + 40) { in.ipproto = f[o + 6]; size_t x = o + 40; while ((in.ipproto == 0 || in.ipproto == 60 || in.ipproto == 43) && f.size() >= x + 2) { int nh = f[x]; size_t l = ((size_t)f[x + 1] + 1) * 8; in.ipproto = nh; x += l; } if (in.ipproto == 0 || in.ipproto == 60 || in.ipproto == 43) in.ipproto = q.l4 == 6 ? 58 : 17; } else in.ipproto = -2;
                if (!q.l2 && in.ipproto == -2) { /* a truncated datagram still reaches the raw socket of the protocol it claimed: use the mirror's */ in.ipproto = q.l4 == 0 ? 6 : ((q.l4 <= 2 || q.l4 >= 7) ? 17 : (q.l4 == 6 ? 58 : 1)); }
            }
            // direct form of the same question, asked of a request object that has never been serialized (a clone, so that the object
            // sent below is untouched): the matcher must not depend on state that only serialization refreshes
            if (q.l2 || !q.v6) {
                std::unique_ptr<Tins::PDU> fresh(req->clone());
                for (auto& in : simnet::inbound) {
                    if (perts[in.idx] == "unreach-own") continue;      // an ICMP error quotes the bytes that were sent: only meaningful once the request has been serialized
                    const Bytes& f = in.frame; size_t off = q.l2 ? 0 : (in.l3off > 0 && in.ethertype == 0x0800 ? (size_t)in.l3off : (size_t)-1); if (off == (size_t)-1 || off > f.size()) continue;
                    bool got; try { got = fresh->matches_response(f.data() + off, (uint32_t)(f.size() - off)); } catch (Tins::exception_base&) { st.inc("probe.direct_match_threw"); continue; }
                    st.inc("chk.direct_match");
                    if (got != (labels[in.idx] != 0)) return Verdict::bad(std::string(got ? "sock:stranger-accepted:" : "sock:mirror-rejected:") + perts[in.idx].substr(0, perts[in.idx].find(':')) + ":direct", fmt("matches_response called directly on the freshly built (never serialized) request says %d for frame '%s', expected %d", got, perts[in.idx].c_str(), labels[in.idx]), stepno);
                }
            }
            // third sentence of the property: for every layer class and every buffer length, including zero, the matcher reads only inside the buffer.
            // Every frame the simulated network delivers is also cut at short and at arbitrary lengths (a short read), copied into a heap block of
            // exactly that size and put to the matcher of the request, of each of its layers, and of one object of every other class that has a matcher;
            // the address sanitizer is the judge
            if ((q.ipid & 7) == 0) {
                std::vector<std::unique_ptr<Tins::PDU> > objs; for (Tins::PDU* l = req.get(); l; l = l->inner_pdu()) objs.emplace_back(l->clone());
                objs.emplace_back(new Tins::RadioTap()); { Tins::RadioTap* rt = new Tins::RadioTap(); rt->inner_pdu(Tins::Dot11Data()); objs.emplace_back(rt); } objs.emplace_back(new Tins::Dot3()); { Tins::Dot3* d3 = new Tins::Dot3(); d3->inner_pdu(Tins::LLC()); objs.emplace_back(d3); }
                objs.emplace_back(new Tins::Loopback()); { Tins::Loopback* lo = new Tins::Loopback(); lo->inner_pdu(Tins::IP()); objs.emplace_back(lo); } objs.emplace_back(new Tins::RawPDU("abc")); objs.emplace_back(new Tins::ARP()); objs.emplace_back(new Tins::BootP()); objs.emplace_back(new Tins::DHCP()); objs.emplace_back(new Tins::DHCPv6()); objs.emplace_back(new Tins::DNS());
                objs.emplace_back(new Tins::ICMP()); objs.emplace_back(new Tins::ICMPv6()); objs.emplace_back(new Tins::TCP()); objs.emplace_back(new Tins::UDP()); objs.emplace_back(new Tins::IP()); objs.emplace_back(new Tins::IPv6()); objs.emplace_back(new Tins::EthernetII()); objs.emplace_back(new Tins::Dot1Q());
                { Tins::PDUCacher<Tins::IP>* pc = new Tins::PDUCacher<Tins::IP>(Tins::IP("10.0.0.1", "10.0.0.2") / Tins::UDP(1, 2)); objs.emplace_back(pc); }
                // transports that delegate to a structured layer above them (a matcher that hands its inner matcher more than is left of the frame reads out of bounds only then)
                { Tins::TCP* t = new Tins::TCP(); t->inner_pdu(Tins::DNS()); objs.emplace_back(t); } { Tins::UDP* u = new Tins::UDP(); u->inner_pdu(Tins::DNS()); objs.emplace_back(u); } { Tins::UDP* u = new Tins::UDP(); u->inner_pdu(Tins::DHCP()); objs.emplace_back(u); }
                { Tins::TCP* t = new Tins::TCP((uint16_t)(q.smac.b[0] << 8 | q.smac.b[1]), (uint16_t)(q.smac.b[2] << 8 | q.smac.b[3]));   /* replies are addressed to the requester's MAC: its first four bytes read as the ports */ t->inner_pdu(Tins::DNS()); objs.emplace_back(t); }      /* ports that mirror the first bytes of an Ethernet frame */
                { Tins::IP* i4 = new Tins::IP(); Tins::TCP t; t.inner_pdu(Tins::DNS()); i4->inner_pdu(t); objs.emplace_back(i4); } { Tins::ICMP* ic = new Tins::ICMP(); ic->inner_pdu(Tins::RawPDU("quoted")); objs.emplace_back(ic); }
                for (auto& in : simnet::inbound) { const Bytes& f = in.frame; uint64_t hsh = fnv1a(f.data(), f.size());
                    size_t lens[12] = { 0, 1, 2, 3, 4, 7, 8, 9, f.size(), f.size() ? hsh % f.size() : 0, f.size() ? (hsh >> 16) % f.size() : 0, f.size() > 14 ? 14 + (hsh >> 32) % (f.size() - 14) : 0 };
                    for (size_t li = 0; li < 12; ++li) { size_t n = std::min(lens[li], f.size()); uint8_t* buf = (uint8_t*)malloc(n ? n : 1); if (n) memcpy(buf, f.data(), n); uint8_t* view = n ? buf : buf + 1;      /* n == 0: one past the block, any read is out of bounds */
                        for (auto& o : objs) { try { (void)o->matches_response(view, (uint32_t)n); } catch (Tins::exception_base&) {} st.inc("chk.matcher_memory_safety"); }
                        free(buf); } }
            }
            if (q.v6 && q.ipopt && ext6_units(q) == 255) { st.inc("probe.maximal_extension_header_direct_only"); continue; }
            // L3 sockets: a frame with a VLAN tag or cut inside the Ethernet header is not an IP datagram for us
            sim::g_sim_now_us = start; sim::g_sim_tick_us = 0; simnet::active = true;
            // arrivals are relative to the moment the request leaves
            // (sendto has not happened yet: convert when it does - simplest is to pre-add `start`; the few syscall ticks before sendto are < 1 ms)
            for (auto& in : simnet::inbound) in.at += start;
            Tins::PDU* resp = 0; std::string exc;
            bool tins_exc = false;
            // both overloads: explicit interface, or the sender's default interface (set at construction, or through the setter)
            try { if (q.ipid % 3 == 0) resp = sender.send_recv(*req, Tins::NetworkInterface::from_index(1)); else { if (q.ipid % 3 == 1) sender.default_interface(Tins::NetworkInterface::from_index(1)); resp = sender.send_recv(*req); st.inc("probe.default_interface_overload"); } }
            catch (Tins::exception_base& e) { exc = demangle(typeid(e).name()); tins_exc = true; }
            catch (std::exception& e) { exc = demangle(typeid(e).name()); }
            int64_t end = sim::g_sim_now_us; simnet::active = false; sim::g_sim_now_us = -1;
            std::unique_ptr<Tins::PDU> resp_guard(resp);
            for (auto& f : simnet::fired) st.inc(f.first, f.second);
            st.inc("chk.send_recv"); st.inc("probe.simclock_reads", sim::g_sim_clock_reads); sim::g_sim_clock_reads = 0;
            const int64_t T = (int64_t)q.timeout_s * 1000000 + q.timeout_us; int64_t elapsed = end - start; sim_total += elapsed;
            bool send_failed = !simnet::fired.count("fault.sendto_error") ? false : true;
            // what was delivered, in order
            std::string dl; int first_true = -1; int strangers_before = 0;
            for (auto& dv : simnet::delivered_log) { dl += fmt("%s%s,", labels[dv.first] ? "T:" : "F:", perts[dv.first].c_str());
                if (q.ipopt && perts[dv.first].compare(0, 10, "truncated:") == 0) { int n = atoi(perts[dv.first].c_str() + 10) - (q.l2 ? (q.vlan ? 18 : 14) : 0); if (n >= 20 && n < 24) { st.inc("probe.truncation_inside_ip_options"); if (&dv != &simnet::delivered_log[0]) st.inc("probe.truncation_inside_ip_options_after_other_frame"); } } if (labels[dv.first] && first_true < 0) first_true = dv.first; if (!labels[dv.first]) { st.inc("fault.stranger_delivered"); if (first_true < 0) ++strangers_before; st.inc("probe.stranger." + perts[dv.first].substr(0, perts[dv.first].find(':'))); } }
            tr.add(fmt("op %d stack=%s%s%s l4=%d T=%lld elapsed=%lld resp=%d delivered=[%s] faults=%zu exc=%s", op, q.l2 ? "eth," : "", q.vlan ? "vlan," : "", q.v6 ? "v6" : "v4", q.l4, (long long)T, (long long)elapsed, resp != 0, dl.c_str(), simnet::fired.size(), exc.c_str()));
            sig = mix64(sig, fnv1a(dl) ^ ((uint64_t)q.l4 << 8) ^ (q.l2 ? 1 : 0) ^ (q.vlan ? 2 : 0) ^ (q.v6 ? 4 : 0) ^ (resp ? 16 : 0) ^ (simnet::fired.size() << 20));
            if (strangers_before > 0 || !simnet::fired.empty()) nontrivial = true;
            st.states.insert(mix64(((uint64_t)q.l4 * 8 + (q.l2 ? 1 : 0) + (q.vlan ? 2 : 0) + (q.v6 ? 4 : 0)) * 64 + std::min(strangers_before, 7) * 8 + (resp ? 4 : 0) + (first_true >= 0 ? 2 : 0) + (simnet::fired.empty() ? 0 : 1), 0xC14));
            // C14 demands correct matching and memory safety, not exception freedom: a libtins exception (e.g. the accepted frame does
            // not parse) is counted; anything else escaping is a violation
            if (!exc.empty() && !tins_exc) return Verdict::bad("sock:foreign-exception:" + exc, "send_recv let a non-libtins exception escape", stepno);
            if (!exc.empty()) {
                st.inc("probe.libtins_exception_escaped_send_recv");
                // the only thing that can throw after the request left is the construction of the winner, i.e. some frame WAS accepted
                int w = simnet::last_delivered;
                if (!simnet::sent.empty() && w >= 0 && !labels[w]) return Verdict::bad("sock:stranger-accepted:" + perts[w].substr(0, perts[w].find(':')), fmt("frame '%s' (not a response to the request) was accepted by the matchers (building the packet from it then threw %s)", perts[w].c_str(), exc.c_str()), stepno);
                continue;
            }
            // ---- safety: only a TRUE frame may be returned, and it is the first TRUE frame delivered
            if (resp) {
                st.inc("probe.response_returned");
                int w = simnet::last_delivered;
                if (w < 0) return Verdict::bad("sock:response-without-frame", "send_recv returned a packet although no frame was delivered", stepno);
                bool last_call_failed = simnet::fired.count("fault.recvfrom_error") && !simnet::delivered_log.empty() && false;
                (void)last_call_failed;
                if (!labels[w]) return Verdict::bad("sock:stranger-accepted:" + perts[w].substr(0, perts[w].find(':')), fmt("frame '%s' (not a response to the request) was returned by send_recv", perts[w].c_str()), stepno);
                if (w != first_true) return Verdict::bad("sock:mirror-skipped", "an earlier TRUE frame was delivered and not returned", stepno);
                if (perts[w] == "unreach-own") st.inc("probe.icmp_error_for_own_packet_returned"); else st.inc("probe.mirror_returned");
            } else {
                if (first_true >= 0) {
                    // a TRUE frame was delivered to the matcher and rejected
                    return Verdict::bad("sock:mirror-rejected:" + perts[first_true], fmt("TRUE frame '%s' was delivered after %lld us and not recognised", perts[first_true].c_str(), (long long)(ats[first_true])), stepno);
                }
                // must-catch window: a TRUE frame arriving in [start, start+T-1s) must have been delivered and returned, unless a syscall fault ended the call
                if (simnet::fired.empty() && !send_failed) {
                    for (size_t i = 0; i < labels.size(); ++i) if (labels[i] && ats[i] + 1000 < T - 1000000) return Verdict::bad("sock:reply-missed", fmt("TRUE frame '%s' arriving %lld us after the request (time-out %lld us) was never picked up", perts[i].c_str(), (long long)ats[i], (long long)T), stepno);
                }
                st.inc("probe.null_returned");
            }
            // ---- bounded liveness in simulated time
            if (elapsed > T + 100000) return Verdict::bad("sock:late-return", fmt("send_recv returned after %lld us, time-out %lld us", (long long)elapsed, (long long)T), stepno);
            if (!simnet::sent.empty()) {
                // self-check: what libtins sent decodes to the planned addresses (counted, not a C14 violation)
                const Bytes& s = simnet::sent[0]; Decoded d = q.l2 ? decode_eth(s) : decode_ip(s.data(), s.size());
                if (!q.vlan && (!d.is_ip || d.src != q.src || d.dst != q.dst)) st.inc("probe.selfcheck_sent_bytes_unexpected"); if (q.dst.b[0] == 255 && !q.v6) st.inc("probe.broadcast_request"); if (q.v6 && q.ipopt) st.inc("probe.v6_replies_with_extension_header");
            }
        }
        st.sim_us = sim_total; st.sched_sig = sig; st.nontrivial = nontrivial;
        return Verdict();
    }

    std::string signature(const Plan& p, const Verdict& v) {
        std::string s = v.cls;
        // shape: request stack of the failing call
        for (auto& l : p.steps) if (l.compare(0, 4, "req ") == 0) { Req q = Req::parse(KV(l.substr(4))); s += fmt("|%s%s%s/l4=%d", q.l2 ? "eth+" : "", q.vlan ? "dot1q+" : "", q.v6 ? "ipv6" : "ip", q.l4); break; }
        return s;
    }
    // simplification: drop requests' optional parts is not needed; ddmin over lines is enough
};

int main(int argc, char** argv) { SockEngine e; return engine_main(e, argc, argv); }
