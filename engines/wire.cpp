// Engine `wire`: C01 (partial) - the capture path fed by a wire and a disk that corrupt.
// Real code: libpcap savefile reader, FileSniffer (FILE*), BaseSniffer::next_packet / sniff_loop / iteration, safe_alloc,
// all sniff_loop_*_handler dispatchers and every parser reached from the 7 link types, plus the inspector (sim/inspect.hpp):
// every read-only accessor, application payload decoders, clone, destruction.
// Stubs: traffic generator + wire faults (bit flips, boundary bytes, truncation, junk, garbage), the simulated disk
// (flipped stored bytes, caplen/len disagreement, truncation, EIO, short reads), allocator ledger, basic-block counter.
#include <signal.h>
#include "kernel.hpp"
#include "codec.hpp"
#include "gen.hpp"
#include "simdisk.hpp"
#include "ledger.hpp"
#include "inspect.hpp"
#include <tins/detail/pdu_helpers.h>
#include <pcap.h>

using namespace sim; using namespace codec;

extern "C" __attribute__((used)) const char* __asan_default_options() { return "exitcode=77:detect_leaks=0:abort_on_error=0:allocator_may_return_null=1:alloc_dealloc_mismatch=0:new_delete_type_mismatch=0"; }
extern "C" __attribute__((used)) const char* __ubsan_default_options() { return "print_stacktrace=1:halt_on_error=1"; }

static volatile uint64_t g_steps = 0;
// hard cap on the basic blocks one plan may execute (far above every budget the oracle checks afterwards): a read that never returns - the budget
// checks only see calls that come back - ends the run with SIGXCPU after a few seconds of simulated work instead of the wall-clock watchdog
static volatile uint64_t g_hard_limit = 0;
extern "C" void __sanitizer_cov_trace_pc() { if (++g_steps > g_hard_limit && g_hard_limit) { g_hard_limit = 0; raise(SIGXCPU); } }

// every layer class constructible from (buffer, size) - the quantifier of the property names them all, the capture path reaches only those a
// lower layer dispatches to
#define WIRE_CLASS_LIST(X) \
    X(EthernetII) X(Dot3) X(Dot1Q) X(IP) X(IPv6) X(TCP) X(UDP) X(ICMP) X(ICMPv6) X(ARP) X(DNS) X(DHCP) X(DHCPv6) X(BootP) X(RawPDU) X(LLC) X(SNAP) X(STP) X(PPPoE) X(MPLS) \
    X(SLL) X(Loopback) X(RadioTap) X(PPI) X(Dot11Data) X(Dot11QoSData) X(Dot11Beacon) X(Dot11ProbeRequest) X(Dot11ProbeResponse) X(Dot11AssocRequest) X(Dot11AssocResponse) \
    X(Dot11Authentication) X(Dot11Deauthentication) X(Dot11Disassoc) X(Dot11ReAssocRequest) X(Dot11ReAssocResponse) X(Dot11RTS) X(Dot11Ack) X(Dot11PSPoll) X(Dot11CFEnd) \
    X(Dot11EndCFAck) X(Dot11BlockAckRequest) X(Dot11BlockAck) X(RSNEAPOL) X(RC4EAPOL) X(IPSecAH) X(IPSecESP) X(VXLAN) X(RTP)
static const char* const wire_class_names[] = {
#define X(C) #C,
    WIRE_CLASS_LIST(X)
#undef X
};
static const size_t WIRE_NCLASS = sizeof(wire_class_names) / sizeof(wire_class_names[0]);
static Tins::PDU* construct_class(size_t idx, const uint8_t* p, uint32_t n) { size_t i = 0;
#define X(C) if (i++ == idx) return new Tins::C(p, n);
    WIRE_CLASS_LIST(X)
#undef X
    return 0; }
static Tins::PDU* construct(int dlt, const Bytes& f) {
    using namespace Tins; const uint8_t* p = f.data(); uint32_t n = (uint32_t)f.size(); static const uint8_t z = 0; if (!p) p = &z;
    switch (dlt) { case DLT_EN10MB: if (Internals::is_dot3(p, n)) return new Dot3(p, n); return new EthernetII(p, n); case DLT_NULL: return new Loopback(p, n); case DLT_LINUX_SLL: return new SLL(p, n); case DLT_PPI: return new PPI(p, n);
        case DLT_RAW: if (n && (p[0] >> 4) == 4) return new IP(p, n); if (n && (p[0] >> 4) == 6) return new IPv6(p, n); return 0; case DLT_IEEE802_11_RADIO: return new RadioTap(p, n); case DLT_IEEE802_11: return Dot11::from_bytes(p, n);
        #ifdef DLT_PKTAP
        case DLT_PKTAP: return new PKTAP(p, n);
        #endif
        default: return 0; }
}

struct WireEngine : Engine {
    const char* name() const { return "wire"; }
    std::string components_json() const {
        return "{\"real\":[\"libpcap savefile reader\",\"FileSniffer/BaseSniffer next_packet, sniff_loop, iteration, safe_alloc, sniff_loop_*_handler\",\"every parser reachable from DLT EN10MB/802.11/RADIOTAP/NULL/LINUX_SLL/RAW/PPI/PKTAP\",\"all read-only accessors, typed option/record decoders, DNS/DHCP/DHCPv6/VXLAN/RTP payload decoders, clone, destructors\"],"
               "\"stub\":[\"traffic generator (fixtures of ~60 layer classes + independent encoder)\",\"wire faults on frames\",\"simulated disk: flipped stored bytes, caplen/len disagreement, truncation, EIO, short reads\",\"operator new/delete ledger\",\"basic-block counter (gcc trace-pc)\"]}";
    }
    std::string rule_text(const std::string&) const {
        return "one run = one capture of 1-60 frames of one link type: well-formed traffic of all layer classes; a third of the runs fault-free (control), otherwise each frame may be hit by a wire fault (1-3 bit flips biased to the first 64 bytes, boundary-value byte, truncation at any length, junk appended, duplicated tail, overwrite, ffff, garbage) and the file by disk faults (flipped bytes in record headers/bodies, caplen>len, zero-length record, truncated file, EIO, short reads); read through real FileSniffer, every accepted packet goes through the inspector. Oracle: no sanitizer report, nothing escapes the capture loop, accessors throw only libtins exceptions, basic blocks per frame within budget, allocations back to the pre-frame level after destruction. distinct = distinct (frame description, fault description) pairs hashed per run; non-trivial = at least one faulted frame was accepted and inspected or rejected as malformed";
    }

    Plan generate(uint64_t seed, const std::string&, const std::string& tier) {
        Rng root(seed); Rng cfg = root.fork("cfg"), wl = root.fork("workload"), ft = root.fork("faults");
        Plan p; p.engine = "wire"; p.mode = "wire"; p.seed = seed; p.cfg.set("property", "C01");
        const int dlts[10] = { DLT_EN10MB, DLT_EN10MB, DLT_EN10MB, DLT_IEEE802_11, DLT_IEEE802_11_RADIO, DLT_NULL, DLT_LINUX_SLL, DLT_RAW, DLT_PPI,
        #ifdef DLT_PKTAP
            DLT_PKTAP
        #else
            DLT_EN10MB
        #endif
        };
        int dlt = dlts[cfg.below(10)]; bool control = cfg.chance(0.33); double frate = control ? 0 : 0.3 + cfg.unit() * 0.7;
        size_t n = (size_t)cfg.small(1, tier == "thorough" ? 200 : 60);
        p.cfg.set("dlt", dlt).set("how", (int64_t)cfg.below(3)).set("control", control ? 1 : 0).setu("shortseed", root.fork("short").next());
        int gdlt = dlt == DLT_EN10MB ? gen::DLT_EN10MB_ : dlt == DLT_IEEE802_11 ? gen::DLT_IEEE802_11_ : dlt == DLT_IEEE802_11_RADIO ? gen::DLT_IEEE802_11_RADIO_ : dlt == DLT_NULL ? gen::DLT_NULL_ : dlt == DLT_LINUX_SLL ? gen::DLT_LINUX_SLL_ : dlt == DLT_RAW ? gen::DLT_RAW_ : dlt == DLT_PPI ? gen::DLT_PPI_ : gen::DLT_PKTAP_;
        for (size_t i = 0; i < n; ++i) {
            gen::Frame f = gen::frame_for(wl, gdlt); std::string fault = "clean"; size_t len = f.bytes.size();
            if (ft.chance(frate)) { fault = gen::corrupt(ft, f.bytes); if (ft.chance(0.2)) fault += "+" + gen::corrupt(ft, f.bytes); len = f.bytes.size(); if (ft.chance(0.1)) { len += (size_t)ft.range(1, 3000); fault += "+caplen<len"; } if (ft.chance(0.05)) { f.bytes.clear(); fault = "zero-length"; } }
            for (char& c : f.desc) if (c == ' ') c = '_'; for (char& c : fault) if (c == ' ') c = '_';
            KV k; k.set("n", f.desc).set("fault", fault).set("len", (int64_t)len).set("f", f.bytes); p.steps.push_back("f " + k.line());
        }
        if (!control) {
            int rf = (int)cfg.below(8);
            if (rf == 0) { KV k; k.set("kind", "short").set("max", (int64_t)ft.range(1, 40)); p.steps.push_back("rfault " + k.line()); }
            else if (rf == 1) { KV k; k.set("kind", "eio").set("at", (int64_t)ft.small(0, 24 + 120 * (int64_t)n)); p.steps.push_back("rfault " + k.line()); }
            else if (rf == 2) { KV k; k.set("kind", "trunc").set("at", (int64_t)ft.small(0, 24 + 120 * (int64_t)n)); p.steps.push_back("rfault " + k.line()); }
            else if (rf <= 4) { int m = (int)ft.range(1, 4); for (int i = 0; i < m; ++i) { KV k; k.set("kind", "flip").setu("pos", ft.next()).set("where", (int64_t)ft.range(1, 2)).set("xor", (int64_t)(1u << ft.below(8))); p.steps.push_back("rfault " + k.line()); } }
        }
        return p;
    }

    Verdict execute(const Plan& p, RunStats& st, Trace& tr) {
        using namespace Tins;
        const int dlt = (int)p.cfg.num("dlt"); const int how = (int)p.cfg.num("how");
        // one-time allocations inside the library/libpcap must not look like leaks: first execution in a process parses one frame of each link type
        { static bool warmed = false; if (!warmed) { warmed = true; Rng w(12345); const int gd[8] = { gen::DLT_EN10MB_, gen::DLT_IEEE802_11_, gen::DLT_IEEE802_11_RADIO_, gen::DLT_NULL_, gen::DLT_LINUX_SLL_, gen::DLT_RAW_, gen::DLT_PPI_, gen::DLT_PKTAP_ };
            const int pd[8] = { DLT_EN10MB, DLT_IEEE802_11, DLT_IEEE802_11_RADIO, DLT_NULL, DLT_LINUX_SLL, DLT_RAW, DLT_PPI,
            #ifdef DLT_PKTAP
                DLT_PKTAP
            #else
                DLT_EN10MB
            #endif
            }; for (int i = 0; i < 8; ++i) for (int j = 0; j < 30; ++j) { gen::Frame f = gen::frame_for(w, gd[i]); try { std::unique_ptr<PDU> q(construct(pd[i], f.bytes)); if (q) { inspect::Counters c; inspect::packet(*q, c); } } catch (std::exception&) {} } } }
        simdisk::files.clear(); simdisk::fired.clear(); simdisk::bufsz = -1; simdisk::read_view = 0;
        const std::string path = "/simdisk/wire.pcap"; simdisk::File& file = simdisk::files[path]; file.short_seed = p.cfg.u64("shortseed", 1);
        Bytes disk = ref_global_header(gen::linktype_of(dlt == DLT_RAW ? gen::DLT_RAW_ : dlt)); std::vector<std::string> descs, faults; std::vector<size_t> hdr_off; std::vector<Bytes> frames;
        for (auto& l : p.steps) if (l.compare(0, 2, "f ") == 0) { KV k(l.substr(2)); Bytes f = k.bytes("f"); hdr_off.push_back(disk.size()); ref_append(disk, 1600000000u + (uint32_t)frames.size(), (uint32_t)(frames.size() * 7 % 1000000), (uint32_t)k.num("len"), f); frames.push_back(f); descs.push_back(k.str("n")); faults.push_back(k.str("fault")); }
        Bytes view = disk; bool any_fault = false; uint64_t sig = mix64(0xC01, (uint64_t)dlt);
        for (auto& l : p.steps) if (l.compare(0, 7, "rfault ") == 0) {
            KV k(l.substr(7)); std::string kind = k.str("kind"); any_fault = true; sig = mix64(sig, fnv1a(kind));
            if (kind == "short") { file.short_max = (int)k.num("max"); st.inc("fault.short_reads_armed"); } else if (kind == "eio") { file.reio_at = k.num("at"); st.inc("fault.read_eio_armed"); }
            else if (kind == "trunc") { size_t at = (size_t)k.num("at"); if (at < view.size()) { view.resize(at); st.inc("fault.truncated_file"); } }
            else if (kind == "flip" && !frames.empty()) { uint64_t rp = k.u64("pos"); size_t i = rp % frames.size(); size_t pos = k.num("where") == 1 ? hdr_off[i] + 8 + (rp >> 20) % 8 : (frames[i].empty() ? hdr_off[i] + 8 : hdr_off[i] + 16 + (rp >> 20) % frames[i].size()); if (pos < view.size()) { view[pos] ^= (uint8_t)k.num("xor"); st.inc(k.num("where") == 1 ? "fault.flipped_record_header_byte" : "fault.flipped_stored_body_byte"); } }
        }
        for (auto& f : faults) if (f != "clean") { any_fault = true; st.inc("fault.wire." + f.substr(0, f.find_first_of("-@_+x0123456789"))); }
        // ---- read through the real capture path
        struct HardLimit { HardLimit(size_t nrec) { g_hard_limit = g_steps + 600000000ULL + 40000000ULL * (nrec + 1); } ~HardLimit() { g_hard_limit = 0; } } hard_limit(frames.size());
        uint64_t accepted = 0, inspected_faulted = 0, rejected = 0, budget_checks = 0; inspect::Counters ic; uint64_t max_ratio = 0;
        std::string exc;
        try {
            FILE* fp = simdisk::open(path, "rb", &view); std::unique_ptr<FileSniffer> sn;
            try { sn.reset(new FileSniffer(fp)); } catch (pcap_error&) { st.inc("probe.open_time_error"); st.sched_sig = sig; return Verdict(); }
            size_t idx = 0; const size_t nrec = frames.size();
            auto handle = [&](PDU& pdu) -> Verdict {
                ++accepted;
                try { inspect::packet(pdu, ic); }
                catch (Tins::exception_base& e) { return Verdict::bad(std::string("wire:libtins-exception-escaped-inspector:") + demangle(typeid(e).name()), "inspector let a libtins exception through (harness bug)"); }
                catch (std::exception& e) { return Verdict::bad(std::string("wire:foreign-exception-in-accessor:") + demangle(typeid(e).name()), std::string("a read-only accessor of an accepted packet threw a non-libtins exception: ") + e.what()); }
                return Verdict(); };
            Verdict bad;
            if (how == 0) {
                for (;;) {
                    int64_t live0 = ledger::live; uint64_t s0 = g_steps; Verdict v; bool end = false;
                    { ledger::Scope sc; Packet pk(sn->next_packet()); if (!pk.pdu()) end = true; else v = handle(*pk.pdu()); }
                    uint64_t used = g_steps - s0; ++budget_checks;
                    if (v.viol) return v; if (end) break;
                    if (ledger::live != live0) return Verdict::bad("wire:leak", fmt("%lld allocations made while reading and inspecting packet #%zu are still live after it was destroyed", (long long)(ledger::live - live0), idx));
                    uint64_t ratio = used / 1000; if (ratio > max_ratio) max_ratio = ratio;
                    if (used > 3000000ULL + 30000ULL * 65535ULL / 64) return Verdict::bad("wire:step-budget-exceeded", fmt("reading+inspecting packet #%zu executed %llu basic blocks", idx, (unsigned long long)used));
                    if (++idx > nrec + 5) return Verdict::bad("wire:more-packets-than-records", "the loop produced more packets than the file has records");
                }
            } else if (how == 1) {
                ledger::Scope sc; uint64_t s0 = g_steps; Verdict first;
                sn->sniff_loop([&](PDU& pdu) -> bool { Verdict v = handle(pdu); if (v.viol && !first.viol) first = v; return ++idx <= nrec + 5; });
                if (first.viol) return first; uint64_t used = g_steps - s0; if (used > (3000000ULL + 30720000ULL) * (nrec + 1)) return Verdict::bad("wire:step-budget-exceeded", fmt("sniff_loop over %zu records executed %llu basic blocks", nrec, (unsigned long long)used));
            } else {
                ledger::Scope sc; uint64_t s0 = g_steps;
                for (auto it = sn->begin(); it != sn->end(); ++it) { Verdict v = handle(*it->pdu()); if (v.viol) return v; if (++idx > nrec + 5) break; }
                uint64_t used = g_steps - s0; if (used > (3000000ULL + 30720000ULL) * (nrec + 1)) return Verdict::bad("wire:step-budget-exceeded", fmt("iteration over %zu records executed %llu basic blocks", nrec, (unsigned long long)used));
            }
            if (idx > nrec + 5) return Verdict::bad("wire:more-packets-than-records", "the loop produced more packets than the file has records");
        }
        catch (Tins::exception_base& e) { return Verdict::bad(std::string("wire:exception-escaped-capture-loop:") + demangle(typeid(e).name()), e.what()); }
        catch (std::exception& e) { return Verdict::bad(std::string("wire:exception-escaped-capture-loop:") + demangle(typeid(e).name()), e.what()); }
        // self-check and reach: what direct construction says about each frame as written
        for (size_t i = 0; i < frames.size(); ++i) {
            bool ok = false; try { std::unique_ptr<PDU> q(construct(dlt, frames[i])); ok = q != 0; } catch (malformed_packet&) {} catch (std::exception& e) { return Verdict::bad(std::string("wire:constructor-threw:") + demangle(typeid(e).name()), "a from-buffer constructor threw something other than malformed_packet for frame " + descs[i] + " / " + faults[i]); }
            if (faults[i] == "clean") { if (!ok) { st.inc("probe.clean_frame_rejected"); tr.add("clean frame rejected: " + descs[i] + " " + hex(frames[i])); } else st.inc("probe.clean_frame_accepted"); }
            else { if (ok) ++inspected_faulted; else ++rejected; }
            sig = mix64(sig, fnv1a(descs[i]) ^ fnv1a(faults[i].substr(0, faults[i].find_first_of("0123456789"))));
        }
        // results must not be computed from memory nobody initialised: every frame is constructed and inspected twice, the two executions
        // differing only in the byte the allocator fills fresh heap memory with; outcome, sizes, every arithmetic / string accessor value and
        // the number of accessors that ended in a libtins exception must agree
        for (size_t i = 0; i < frames.size(); ++i) {
            uint64_t dg[2] = { 0, 0 };
            for (int pass = 0; pass < 2; ++pass) {
                ledger::fill = pass ? 0x5a : 0xa5; inspect::digest() = 0xC01;
                try { ledger::Scope sc; std::unique_ptr<PDU> q(construct(dlt, frames[i]));
                    if (!q) inspect::fold(1); else { inspect::Counters c2; inspect::fold(q->size()); for (const PDU* l = q.get(); l; l = l->inner_pdu()) { inspect::fold((uint64_t)l->pdu_type()); inspect::fold(l->header_size()); inspect::fold(l->trailer_size()); }
                        try { inspect::packet(*q, c2); } catch (std::exception&) { inspect::fold(3); } inspect::fold(c2.calls); inspect::fold(c2.tins_exc); inspect::fold(c2.app_decodes); } }
                catch (malformed_packet&) { inspect::fold(2); } catch (std::exception&) { inspect::fold(4); }
                ledger::fill = -1; dg[pass] = inspect::digest();
            }
            st.inc("chk.uninitialised_memory_differential");
            if (dg[0] != dg[1]) return Verdict::bad("wire:result-depends-on-uninitialised-memory", fmt("frame #%zu (%s): constructing and inspecting it gives different results when fresh heap memory is filled with 0xa5 or with 0x5a", i, descs[i].c_str()));
        }
        // every class directly: suffixes of the frames (so that inner-layer bytes meet the class that parses them, and every other class too), whole and
        // cut short, in heap blocks of exactly that size; outcome as for the capture path: a packet (then inspected) or malformed_packet, nothing else
        for (size_t i = 0; i < frames.size(); ++i) { const Bytes& f = frames[i]; uint64_t hsh = fnv1a(f.data(), f.size()) ^ p.seed; if ((hsh & 63) != 0 || f.empty()) continue;
            static const size_t offs[16] = { 0, 4, 8, 14, 16, 18, 22, 24, 26, 32, 34, 38, 42, 54, 62, 74 };
            for (int oi = 0; oi < 2; ++oi) { size_t off = offs[(hsh >> (8 + 4 * oi)) & 15]; if (off > f.size()) off = 0; size_t full = f.size() - off;
                for (int cut = 0; cut < 2; ++cut) { size_t n = cut ? (full ? (size_t)((hsh >> 24) % full) : 0) : full; uint8_t* buf = (uint8_t*)malloc(n ? n : 1); if (n) memcpy(buf, f.data() + off, n); const uint8_t* view = n ? buf : buf + 1;
                    for (size_t ci = 0; ci < WIRE_NCLASS; ++ci) { st.inc("chk.direct_class_construction");
                        try { int64_t live0 = ledger::live; { ledger::Scope sc; std::unique_ptr<PDU> q(construct_class(ci, view, (uint32_t)n)); if (q) { inspect::Counters c3; inspect::packet(*q, c3); } }
                            if (ledger::live != live0) { free(buf); return Verdict::bad("wire:leak", fmt("%lld allocations made while constructing and inspecting a %s from %zu bytes are still live after it was destroyed", (long long)(ledger::live - live0), wire_class_names[ci], n)); } }
                        catch (malformed_packet&) { st.inc("probe.direct_class_rejected"); }
                        catch (Tins::exception_base& e) { free(buf); return Verdict::bad(std::string("wire:constructor-threw:") + demangle(typeid(e).name()), std::string("the from-buffer constructor of ") + wire_class_names[ci] + " threw a libtins exception other than malformed_packet"); }
                        catch (std::exception& e) { free(buf); return Verdict::bad(std::string("wire:constructor-threw:") + demangle(typeid(e).name()), std::string("the from-buffer constructor of ") + wire_class_names[ci] + " (or an accessor of its result) threw a foreign exception"); } }
                    free(buf); } } }
        for (auto& fk : simdisk::fired) st.inc(fk.first, fk.second);
        st.inc("chk.frame_budget", budget_checks); st.inc("chk.accepted_packet", accepted); st.inc("probe.faulted_frame_still_parses", inspected_faulted); st.inc("probe.faulted_frame_rejected_as_malformed", rejected); st.inc("chk.accessor_calls", ic.calls); st.inc("probe.accessor_libtins_exceptions", ic.tins_exc); st.inc("probe.layers_inspected", ic.layers); st.inc("probe.app_payload_decodes", ic.app_decodes);
        st.ctr["probe.max_kilo_blocks_per_packet"] = std::max(st.ctr["probe.max_kilo_blocks_per_packet"], max_ratio);
        tr.add(fmt("dlt=%d how=%d records=%zu accepted=%llu faulted_ok=%llu rejected=%llu calls=%llu", dlt, how, frames.size(), (unsigned long long)accepted, (unsigned long long)inspected_faulted, (unsigned long long)rejected, (unsigned long long)ic.calls));
        st.sched_sig = sig; st.nontrivial = any_fault && (inspected_faulted + rejected) > 0; st.sim_us = 0;
        st.states.insert(mix64((uint64_t)dlt * 64 + std::min<uint64_t>(accepted, 7) * 8 + std::min<uint64_t>(rejected, 7), how));
        return Verdict();
    }

    std::string signature(const Plan& p, const Verdict& v) {
        // shape: the layer description of the (last remaining) frame in the minimised plan
        std::string s = v.cls; for (auto& l : p.steps) if (l.compare(0, 2, "f ") == 0) { KV k(l.substr(2)); std::string d = k.str("n"); s += "|" + d.substr(0, d.find('(')); break; }
        return s;
    }
};

int main(int argc, char** argv) { WireEngine e; return engine_main(e, argc, argv); }
